"""Native oracle for C35 (bounded stand-in next to the proof): the real AggregatedErrorLog.aggregate_with against a fold written from
the statement, over every batch sequence in a small domain (2 messages x 2 severities, times 1..3 non-decreasing per message key,
0..2 batches of 1..3 entries after an optional first batch). Inputs in which an entry carries an EARLIER time than the last merged
entry of the same message are left out (that case is the separately listed finding)."""
import itertools


def reference(log, entry):
    """one step of the statement; log is a list of [message, time, severity, occurrences]"""
    if log and log[-1][0] == entry[0] and log[-1][2] == entry[2]:
        if log[-1][1] < entry[1]:
            log[-1][3] += 1
            log[-1][1] = entry[1]
            return True
        if log[-1][1] == entry[1]:
            return True                      # redelivered duplicate
        return False                         # earlier time: outside this oracle
    log.append([entry[0], entry[1], entry[2], 1])
    return True


def check(max_batches=2, max_len=3):
    from openpectus.aggregator.models import AggregatedErrorLog
    import openpectus.protocol.models as Mdl
    import logging
    logging.getLogger("openpectus.aggregator.models").setLevel(logging.CRITICAL)
    kinds = [("a", 40), ("b", 40), ("a", 30)]
    times = (1.0, 2.0, 3.0)
    entries = [(m, t, s) for (m, s) in kinds for t in times]
    n = 0
    batches = [list(b) for k in range(1, max_len + 1) for b in itertools.product(entries, repeat=k)
               if all(x[1] <= y[1] for x, y in zip(b, b[1:]))]
    for first in [[]] + [b for b in batches if len(b) <= 2]:
        for second in batches:
            seq = [b for b in (first, second) if b]
            ref, ok = [], True
            for b in seq:
                for e in b:
                    ok = ok and reference(ref, e)
            if not ok:
                continue
            n += 1
            log = AggregatedErrorLog(entries=[])
            for b in seq:
                log.aggregate_with(Mdl.ErrorLog(entries=[Mdl.ErrorLogEntry(message=m, created_time=t, severity=s) for (m, t, s) in b]))
            got = [[x.message, x.created_time, x.severity, x.occurrences] for x in log.entries]
            if got != ref:
                return {"violated": True, "batches": seq, "aggregated": got, "statement_says": ref}
    return {"violated": False, "scenarios": n}


if __name__ == "__main__":
    print(check())
