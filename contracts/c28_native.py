"""Native oracle for C28: the real FromEngine / Aggregator.shutdown / RecentEngineRepository on an in-memory sqlite database."""
import asyncio
from unittest.mock import Mock


def _setup():
    from openpectus.aggregator.data import database
    import openpectus.aggregator.data.models as DMdl
    from openpectus.aggregator.aggregator import Aggregator
    database.configure_db("sqlite:///:memory:")
    DMdl.DBModel.metadata.create_all(database._engine)  # type: ignore
    return database


class _Pub:
    pubsub_endpoint = Mock()

    def __getattr__(self, name):
        async def coro(*a, **k):
            return None
        return coro


def _engine_data(engine_id="E1"):
    from openpectus.aggregator.models import EngineData
    return EngineData(engine_id=engine_id, computer_name="pc", engine_version="1", uod_name="uod", uod_author_name="a",
                      uod_author_email="e", uod_filename="f", location="loc")


def _run(fn):
    async def main():
        r = fn()
        await asyncio.sleep(0)
        return r
    return asyncio.run(main())


def scenario_reconnect(with_shutdown=False):
    """register, start a run, disconnect (or aggregator shutdown + new aggregator), re-register: same run id"""
    from datetime import datetime, timezone
    from openpectus.aggregator.data import database
    import openpectus.aggregator.data.models as DMdl
    from openpectus.aggregator.aggregator import Aggregator
    import openpectus.aggregator.models as Mdl
    database.configure_db("sqlite:///:memory:")
    DMdl.DBModel.metadata.create_all(database._engine)  # type: ignore

    def body():
        agg = Aggregator(Mock(), _Pub(), _Pub())
        ed = _engine_data()
        with database.create_scope():
            agg.from_engine.register_engine_data(ed)
        ed.run_data = Mdl.RunData.empty(run_id="run-1", run_started=datetime(2024, 1, 1, tzinfo=timezone.utc))
        if with_shutdown:
            agg.shutdown()
            agg = Aggregator(Mock(), _Pub(), _Pub())     # restarted aggregator: empty map, same database
        else:
            agg.from_engine.engine_disconnected("E1")
        ed2 = _engine_data()
        agg.from_engine.register_engine_data(ed2)
        rid = ed2.run_data.run_id if ed2.has_run() else None
        return {"violated": rid != "run-1", "scenario": "shutdown+restart" if with_shutdown else "disconnect+re-register",
                "run_id_before": "run-1", "run_id_after": rid, "registered": agg.from_engine._engine_data_map.get("E1") is ed2}
    return _run(body)


def scenario_no_run():
    from openpectus.aggregator.data import database
    import openpectus.aggregator.data.models as DMdl
    from openpectus.aggregator.aggregator import Aggregator
    database.configure_db("sqlite:///:memory:")
    DMdl.DBModel.metadata.create_all(database._engine)  # type: ignore

    def body():
        agg = Aggregator(Mock(), _Pub(), _Pub())
        agg.from_engine.register_engine_data(_engine_data())
        agg.from_engine.engine_disconnected("E1")
        ed2 = _engine_data()
        agg.from_engine.register_engine_data(ed2)
        return {"violated": ed2.has_run(), "scenario": "disconnect without a run: nothing to restore", "has_run_after": ed2.has_run()}
    return _run(body)


def scenario_row_without_start():
    """a stored row with a run id but no start time (the code substitutes `now`): the run id must still be continued"""
    from datetime import datetime, timezone
    from openpectus.aggregator.data import database
    import openpectus.aggregator.data.models as DMdl
    from openpectus.aggregator.aggregator import Aggregator
    database.configure_db("sqlite:///:memory:")
    DMdl.DBModel.metadata.create_all(database._engine)  # type: ignore

    def body():
        agg = Aggregator(Mock(), _Pub(), _Pub())
        with database.create_scope():
            s = database.scoped_session()
            row = DMdl.RecentEngine()
            row.engine_id, row.run_id, row.run_started, row.run_stopped = "E1", "run-7", None, None
            row.name, row.system_state, row.location, row.last_update = "n", "", "l", datetime.now(timezone.utc)
            row.contributors, row.required_roles = [], []
            s.add(row)
            s.commit()
        ed2 = _engine_data()
        agg.from_engine.register_engine_data(ed2)
        rid = ed2.run_data.run_id if ed2.has_run() else None
        return {"violated": rid != "run-7", "scenario": "stored row with run id and no start time", "run_id_stored": "run-7", "run_id_after": rid}
    return _run(body)


def scenario_disconnect_after_the_run_ended():
    """a row written during a run must be rewritten without a run id when the engine later disconnects idle"""
    from datetime import datetime, timezone
    from openpectus.aggregator.data import database
    import openpectus.aggregator.data.models as DMdl
    from openpectus.aggregator.aggregator import Aggregator
    import openpectus.aggregator.models as Mdl
    database.configure_db("sqlite:///:memory:")
    DMdl.DBModel.metadata.create_all(database._engine)  # type: ignore

    def body():
        agg = Aggregator(Mock(), _Pub(), _Pub())
        ed = _engine_data()
        agg.from_engine.register_engine_data(ed)
        ed.run_data = Mdl.RunData.empty(run_id="run-1", run_started=datetime(2024, 1, 1, tzinfo=timezone.utc))
        agg.from_engine.engine_disconnected("E1")           # row now carries run-1
        ed2 = _engine_data()
        agg.from_engine.register_engine_data(ed2)           # run-1 continues
        ed2.reset_run()                                     # the run ends (run_stopped does this after storing the run)
        agg.from_engine.engine_disconnected("E1")           # idle disconnect: the row must lose the run id
        ed3 = _engine_data()
        agg.from_engine.register_engine_data(ed3)
        return {"violated": ed3.has_run(), "scenario": "idle disconnect after the run ended: a stale run id must not be restored",
                "run_restored": ed3.run_data.run_id if ed3.has_run() else None}
    return _run(body)


def scenario_shutdown_after_the_run_ended():
    """a row written during a run must be rewritten without a run id when the aggregator shuts down while the engine is connected and idle"""
    from datetime import datetime, timezone
    from openpectus.aggregator.data import database
    import openpectus.aggregator.data.models as DMdl
    from openpectus.aggregator.aggregator import Aggregator
    import openpectus.aggregator.models as Mdl
    database.configure_db("sqlite:///:memory:")
    DMdl.DBModel.metadata.create_all(database._engine)  # type: ignore

    def body():
        agg = Aggregator(Mock(), _Pub(), _Pub())
        ed = _engine_data()
        agg.from_engine.register_engine_data(ed)
        ed.run_data = Mdl.RunData.empty(run_id="run-1", run_started=datetime(2024, 1, 1, tzinfo=timezone.utc))
        agg.from_engine.engine_disconnected("E1")           # row now carries run-1
        ed2 = _engine_data()
        agg.from_engine.register_engine_data(ed2)           # run-1 continues
        ed2.reset_run()                                     # the run ends
        agg.shutdown()                                      # graceful shutdown with the engine connected and idle
        agg = Aggregator(Mock(), _Pub(), _Pub())
        ed3 = _engine_data()
        agg.from_engine.register_engine_data(ed3)
        return {"violated": ed3.has_run(), "scenario": "graceful shutdown with an idle engine after its run ended: a stale run id must not be restored",
                "run_restored": ed3.run_data.run_id if ed3.has_run() else None}
    return _run(body)


ALL = [scenario_shutdown_after_the_run_ended, lambda: scenario_reconnect(False), lambda: scenario_reconnect(True), scenario_no_run, scenario_row_without_start, scenario_disconnect_after_the_run_ended]
ALL = ALL[1:] + ALL[:1]        # keep the indices of the earlier scenarios
if __name__ == "__main__":
    for s in ALL:
        print(s())
