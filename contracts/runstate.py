"""Shared model for the engine run-state commands (C06, C09): ghost view of the system tags and the assumed contracts of the
engine services the internal commands call."""
import z3
from pyvc.smt import Val, RID, SVs, IV, mk_str, mk_bool, NONE
from pyvc.state import SV
from pyvc.repo import Ty

I = "openpectus.engine.internal_commands_impl:"
E = "openpectus.engine.engine:Engine."
TYPES = {"InternalEngineCommand.engine": "Engine", "Engine._runstate_started": "bool", "Engine._runstate_paused": "bool",
         "Engine._runstate_holding": "bool", "Engine._runstate_stopping": "bool", "Engine._tick_time": "float",
         "InternalEngineCommand.kvargs": "dict[str, str]", "Engine.ghost_pause_seq": "int", "Engine.ghost_run_seq": "int"}
for c in ("Start", "Pause", "Unpause", "Hold", "Unhold", "Stop", "Restart"):
    TYPES[f"{c}EngineCommand.engine"] = "Engine"
    TYPES[f"{c}EngineCommand.kvargs"] = "dict[str, str]"
TAGS = {"SYSTEM_STATE": "ghost_sys_state", "METHOD_STATUS": "ghost_method_status", "RUN_TIME": "ghost_run_time",
        "PROCESS_TIME": "ghost_process_time", "RUN_ID": "ghost_run_id"}


def _engine(ctx):
    e = ctx.local("e")
    if e is None:
        s = ctx.local("self")
        if s is not None and s.ty is not None and s.ty.name == "Engine":
            return s
        e = ctx.spec("self.engine")
    return e


def tag_set(field):
    def h(ctx, args, kwargs):
        e = _engine(ctx)
        ctx.st.write(field, RID(e.term), args[0].term)
        return ctx.none()
    h.modifies = [field]
    h.__doc__ = f"system tag set_value(v, t): the tag's value (ghost field {field} of the engine) becomes v"
    return h


def tag_get(field):
    def h(ctx, args, kwargs):
        e = _engine(ctx)
        return SV(ctx.st.read(field, RID(e.term)), None)
    h.modifies = []
    h.__doc__ = f"system tag get_value(): ghost field {field}"
    return h


def set_run_id(ctx, args, kwargs):
    """Engine.set_run_id(): a fresh non-empty run id (uuid4, assumed unique) becomes the Run Id tag value"""
    e = _engine(ctx)
    rid_new = ctx.fresh("run_id", "str")
    ctx.assume(z3.Length(SVs(rid_new.term)) > 0)
    old = ctx.st.read("ghost_run_id", RID(e.term))
    ctx.assume(rid_new.term != old)
    top = getattr(ctx.ex, "top_frame", None)
    if top is not None and top.entry_heap is not None and "ghost_run_id" in top.entry_heap:
        # uuid4: different from every id issued before, in particular from the one held when this command started
        ctx.assume(rid_new.term != z3.Select(top.entry_heap["ghost_run_id"], RID(e.term)))
    ctx.st.write("ghost_run_id", RID(e.term), rid_new.term)
    ctx.st.write("ghost_run_seq", RID(e.term), Val.VInt(IV(ctx.st.read("ghost_run_seq", RID(e.term))) + 1))
    return rid_new


set_run_id.modifies = ["ghost_run_id", "ghost_run_seq"]


def clear_run_id(ctx, args, kwargs):
    """Engine.clear_run_id(): the Run Id tag value becomes None"""
    e = _engine(ctx)
    ctx.st.write("ghost_run_id", RID(e.term), NONE)
    return ctx.none()


clear_run_id.modifies = ["ghost_run_id"]


def apply_safe_state(ctx, args, kwargs):
    """Engine._apply_safe_state(): returns the collection of the output values in effect right now (ghost: which pause / run it
    was captured in) and puts the outputs into their safe state"""
    e = _engine(ctx)
    st = ctx.st
    snap = ctx.fresh("prev_state", "TagValueCollection")
    seq = IV(st.read("ghost_pause_seq", RID(e.term))) + 1
    st.write("ghost_pause_seq", RID(e.term), Val.VInt(seq))
    st.write("ghost_captured_at_pause", RID(snap.term), Val.VInt(seq))
    st.write("ghost_captured_in_run", RID(snap.term), st.read("ghost_run_seq", RID(e.term)))
    return snap


apply_safe_state.modifies = ["ghost_pause_seq", "ghost_captured_at_pause", "ghost_captured_in_run"]


def apply_state(ctx, args, kwargs):
    """Engine._apply_state(state): the output values in `state` are applied (C09 obligation: it is the snapshot of the most recent
    pause of the current run)"""
    e = _engine(ctx)
    st = ctx.st
    state = args[0]
    ok = z3.And(st.read("ghost_captured_at_pause", RID(state.term)) == st.read("ghost_pause_seq", RID(e.term)),
                st.read("ghost_captured_in_run", RID(state.term)) == st.read("ghost_run_seq", RID(e.term)))
    ctx.check("restored-values-are-those-of-the-most-recent-pause-of-this-run", ok, "call-site")
    return ctx.none()


apply_state.modifies = []


def noop(ctx, args, kwargs):
    """engine service without effect on run-state flags, system state, run id or the pause snapshot"""
    return ctx.none()


noop.modifies = []


def float_of(ctx, args, kwargs):
    return ctx.fresh("number", "float")


float_of.modifies = []
CALLS = {"e.set_run_id": set_run_id, "e.clear_run_id": clear_run_id, "e._apply_safe_state": apply_safe_state, "e._apply_state": apply_state,
         "e.tracking.enable": noop, "e.tracking.disable": noop, "e.emitter.emit_on_start": noop, "e.emitter.emit_on_stop": noop,
         "e.emitter.emit_on_runstate_change": noop, "e.cancel_all_commands": noop, "e.write_process_image": noop, "e._stop_interpreter": noop,
         "self.fail": noop, "self.set_complete": noop, "super().cancel": noop, "float": float_of, "time.time": float_of,
         "sys_state.get_value": tag_get("ghost_sys_state"), "sys_state.set_value": tag_set("ghost_sys_state"),
         "self._emitter.emit_on_method_error": noop, "self._apply_safe_state": apply_safe_state,
         "self._emitter.emit_on_runstate_change": noop}
for name, fld in TAGS.items():
    CALLS[f"e._system_tags[SystemTagName.{name}].set_value"] = tag_set(fld)
    CALLS[f"self._system_tags[SystemTagName.{name}].set_value"] = tag_set(fld)
    CALLS[f"self._system_tags[SystemTagName.{name}].get_value"] = tag_get(fld)

EN = "self.engine"


def inv(en=EN):
    """I: System State agrees with the run-state flags (pause over hold), Run Id present exactly while a run is active; the value
    Restarting is exempt (only the Restart command may set it, see `restarting-only-by-restart`)."""
    S = f"{en}.ghost_sys_state"
    return [
        ("I:system-state-agrees-with-run-state",
         f'{S} == "Restarting" or ('
         f'({S} == "Stopped") == (not {en}._runstate_started) and '
         f'implies({en}._runstate_started and {en}._runstate_paused, {S} == "Paused") and '
         f'implies({en}._runstate_started and not {en}._runstate_paused and {en}._runstate_holding, {S} == "Holding") and '
         f'implies({en}._runstate_started and not {en}._runstate_paused and not {en}._runstate_holding, {S} == "Running"))'),
        ("I:run-id-present-exactly-while-a-run-is-active",
         f'{S} == "Restarting" or (({en}.ghost_run_id is None) == (not {en}._runstate_started))'),
        ("K:pause-snapshot-belongs-to-the-current-pause",
         f"implies({en}._prev_state is not None, {en}._runstate_started and {en}._runstate_paused and "
         f"{en}._prev_state.ghost_captured_at_pause is {en}.ghost_pause_seq and {en}._prev_state.ghost_captured_in_run is {en}.ghost_run_seq)"),
    ]
