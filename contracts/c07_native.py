"""Native scenarios for C07 on the real engine (repo test uod)."""
import time


def _engine():
    from openpectus.test.engine.test_engine import create_engine
    return create_engine()


def scenario_restart_resets_clocks():
    from openpectus.lang.exec.tags import SystemTagName
    e = _engine()
    try:
        def tick(n=1):
            for _ in range(n):
                e.tick(time.time(), 0.1)
        e.schedule_execution("Start"); tick(6)
        rt0 = e._system_tags[SystemTagName.RUN_TIME].as_float()
        rid0 = e._system_tags[SystemTagName.RUN_ID].get_value()
        e.schedule_execution("Restart"); tick(4)
        rid1 = e._system_tags[SystemTagName.RUN_ID].get_value()
        rt1 = e._system_tags[SystemTagName.RUN_TIME].as_float()
        pt1 = e._system_tags[SystemTagName.PROCESS_TIME].as_float()
        # a new run (new run id) has just started: its clocks must have restarted from zero, i.e. be far below the old run's time
        return {"violated": rid1 != rid0 and rid1 is not None and (rt1 >= rt0 or pt1 >= rt0), "run_time_before_restart": rt0,
                "run_time_after_restart": rt1, "process_time_after_restart": pt1, "new_run_id": rid1 != rid0}
    finally:
        e.cleanup()


def scenario_block_time_while_holding():
    from openpectus.lang.exec.tags import SystemTagName
    from openpectus.test.engine.utility_methods import EngineTestRunner
    from openpectus.test.engine.test_engine import create_test_uod
    runner = EngineTestRunner(create_test_uod, "Block: A\n    Mark: a\n    Wait: 5s\n    End block\n")
    with runner.run() as instance:
        instance.start_run()
        instance.run_until_instruction("Mark", arguments="a")
        e = instance.engine
        e.schedule_execution("Hold")
        instance.run_ticks(2)
        bt0 = e.tags[SystemTagName.BLOCK_TIME].as_float()
        instance.run_ticks(6)
        bt1 = e.tags[SystemTagName.BLOCK_TIME].as_float()
        state = e._system_tags[SystemTagName.SYSTEM_STATE].get_value()
        return {"violated": state == "Holding" and bt1 > bt0 + 0.25, "system_state": str(state), "block_time_at_hold": bt0, "block_time_6_ticks_later": bt1}


if __name__ == "__main__":
    print(scenario_restart_resets_clocks())
    print(scenario_block_time_while_holding())


def threshold_after_pause_stop_start():
    """Start; Pause; Stop; Start: the timer tags must run in the second run (a threshold instruction must start)"""
    import logging
    logging.disable(logging.CRITICAL)
    from openpectus.test.engine.utility_methods import EngineTestRunner
    from openpectus.test.engine.test_engine import create_test_uod
    try:
        runner = EngineTestRunner(create_test_uod, "Mark: A\n0.01 Mark: B\n", fail_on_log_error=False)
        with runner.run() as inst:
            e = inst.engine
            inst.start_run()
            inst.run_ticks(3)
            e.schedule_execution("Pause")
            inst.run_ticks(3)
            e.schedule_execution("Stop")
            inst.run_ticks(4)
            e.schedule_execution("Start")
            inst.run_ticks(25)
            bt, mark = e.tags["Block Time"].get_value(), str(e.tags["Mark"].get_value())
            return {"violated": bt == 0.0 or not mark.endswith("B"), "block_time_in_second_run": bt, "marks": mark,
                    "run_time": e.tags["Run Time"].get_value(), "scenario": "Start; Pause; Stop; Start with `Mark: A / 0.01 Mark: B`"}
    finally:
        logging.disable(logging.NOTSET)
