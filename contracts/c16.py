"""C16 — Reported tag times are the engine time of the change.

Contract: Tag.set_value / set_value_and_unit / simulate_value / simulate_value_and_unit(…, tick_time) require
    tick_time == the engine clock of the current tick
i.e. the enclosing object's `_tick_time` (engine / interpreter / internal command's engine) or the `tick_time` parameter an
event handler received from the engine. The obligation is generated for EVERY call site found in the listed files on every run
(so new call sites are picked up); the time argument is evaluated symbolically by the executor and compared by the solver with the
clock term of the enclosing function.
"""
import ast
import z3
from pyvc.spec import Contract
from pyvc.smt import Val, mk_real, RV
from pyvc.state import SV, Unsupported
from pyvc.repo import Ty
from pyvc.executor import Frame

PROP = "C16"
FILES = ["openpectus.lang.exec.pinterpreter", "openpectus.engine.engine", "openpectus.engine.internal_commands_impl",
         "openpectus.lang.exec.tags_impl", "openpectus.lang.exec.tags", "openpectus.engine.hardware_recovery", "openpectus.engine.archiver"]
SETTERS = {"set_value": 1, "set_value_and_unit": 2, "simulate_value": 1, "simulate_value_and_unit": 2}


def _sites(repo):
    out = []
    for mod in FILES:
        mi = repo.module(mod)
        for cname, ci in list(mi.classes.items()) + [(None, None)]:
            funcs = ci.methods.values() if ci else mi.functions.values()
            for fi in funcs:
                k = 0
                for n in ast.walk(fi.node):
                    if isinstance(n, ast.Call) and isinstance(n.func, ast.Attribute) and n.func.attr in SETTERS:
                        pos = SETTERS[n.func.attr]
                        arg = None
                        if len(n.args) > pos:
                            arg = n.args[pos]
                        else:
                            for kw in n.keywords:
                                if kw.arg == "tick_time":
                                    arg = kw.value
                        # forwarding wrappers (*args, **kwargs) pass the caller's time through unchanged
                        forwards = any(isinstance(a, ast.Starred) for a in n.args) or any(kw.arg is None for kw in n.keywords)
                        out.append((fi, n, arg, forwards, k))
                        k += 1
    return out


def lemma_sites(ctx):
    ex, st = ctx.ex, ctx.st
    repo = ex.repo
    for fi, call, arg, forwards, k in _sites(repo):
        short = fi.qualname.split(":")[1]
        name = f"time-argument-is-the-engine-clock[{short}#{k}:{ast.unparse(call.func)[-40:]}]"
        fr = Frame(fi, fi.module, None)
        # symbolic environment of the enclosing function: distinct unknowns for everything that is not the clock
        clock = SV(mk_real(st.fresh("engine_clock", z3.RealSort())), Ty("float"))
        params = [a.arg for a in fi.node.args.args + fi.node.args.kwonlyargs]
        selfsv = ctx.fresh("self_obj", None)
        fr.locals["self"] = selfsv
        if "tick_time" in params:
            fr.locals["tick_time"] = clock                       # handler parameter supplied by the engine
        else:
            st.write("_tick_time", Val.rid(selfsv.term), clock.term)   # the owner's clock of the current tick
        if "e" in ast.unparse(call) and fi.cls is not None and "EngineCommand" in " ".join(fi.cls.base_names + [fi.cls.name]):
            e = ctx.fresh("engine", None)
            st.write("_tick_time", Val.rid(e.term), clock.term)
            fr.locals["e"] = e
        st.write("_tick_number", Val.rid(selfsv.term), ctx.fresh("tick_number", "int").term)
        wit = (lambda site: (lambda m: {"site": site}))({"function": fi.qualname, "call": ast.unparse(call)[:120], "line": call.lineno})
        if forwards:
            ctx.check_w(name, z3.BoolVal(True), wit, "call-site")
            continue
        if arg is None:
            ctx.check_w(name, z3.BoolVal(False), wit, "call-site")
            continue
        try:
            v = ex.ev(arg, fr)
            ok = v.term == clock.term if v.term is not None else z3.BoolVal(False)
        except Unsupported:
            ok = z3.BoolVal(False)
        ctx.check_w(name, ok, wit, "call-site")


def _is_tag_class(repo, ci):
    return any(c.name == "Tag" for c in ci.mro(repo))


def _self_attr_targets(fn, attr):
    out = []
    for n in ast.walk(fn):
        tg = n.targets if isinstance(n, ast.Assign) else ([n.target] if isinstance(n, (ast.AugAssign, ast.AnnAssign)) else [])
        for t in tg:
            if isinstance(t, ast.Attribute) and t.attr == attr and isinstance(t.value, ast.Name) and t.value.id == "self":
                out.append(n)
    return out


def lemma_direct_assignments(ctx):
    """A Tag subclass that assigns `self.value` directly (outside __init__ and outside the setters) must stamp the tag with the engine
    clock of that tick in the same method: `self.tick_time = <the clock>`; otherwise the changed value is reported with the time of an
    earlier change."""
    ex, st = ctx.ex, ctx.st
    repo = ex.repo
    for mod in ("openpectus.lang.exec.tags", "openpectus.lang.exec.tags_impl", "openpectus.engine.archiver", "openpectus.engine.hardware_recovery"):
        mi = repo.module(mod)
        for cname, ci in mi.classes.items():
            if not _is_tag_class(repo, ci):
                continue
            for fi in ci.methods.values():
                if fi.node.name == "__init__" or not _self_attr_targets(fi.node, "value"):
                    continue
                short = fi.qualname.split(":")[1]
                name = f"directly-assigned-value-is-stamped-with-the-engine-clock[{short}]"
                fr = Frame(fi, fi.module, None)
                clock = SV(mk_real(st.fresh("engine_clock", z3.RealSort())), Ty("float"))
                params = [a.arg for a in fi.node.args.args + fi.node.args.kwonlyargs]
                fr.locals["self"] = ctx.fresh("self_obj", None)
                if "tick_time" in params:
                    fr.locals["tick_time"] = clock
                stamps = _self_attr_targets(fi.node, "tick_time")
                ok = z3.BoolVal(False)
                for a in stamps:
                    try:
                        v = ex.ev(a.value, fr)
                        if v.term is not None:
                            ok = z3.Or(ok, v.term == clock.term)
                    except Unsupported:
                        pass
                wit = (lambda site: (lambda m: {"site": site}))({"function": fi.qualname, "line": fi.node.lineno,
                                                                 "assignments": [ast.unparse(n)[:80] for n in _self_attr_targets(fi.node, "value")]})
                ctx.check_w(name, ok, wit, "call-site")


# ---- the clock itself: Engine.tick sets `_tick_time` to this tick's time before anything that can stamp a tag runs ------------------------
def component(ctx, args, kwargs):
    """a component call in Engine.tick that can set tag values (hardware tick, read phase, tracking, interpreter, calculated tags,
    command manager, notification, write phase): when it runs, the engine clock must already be this tick's time"""
    ctx.check_w(f"engine-clock-is-this-ticks-time-when-tags-can-be-stamped[{ctx.text}]", ctx.spec_bool("self._tick_time == tick_time"),
                lambda m: {"call": ctx.text}, "call-site")
    return ctx.fresh("component_result", None)


component.modifies = None
tick_clock = Contract(
    target="openpectus.engine.engine:Engine.tick",
    types={"self": "Engine", "tick_time": "float", "increment_time": "float", "Engine._tick_time": "float", "Engine._tick_number": "int",
           "Engine._runstate_started": "bool", "Engine._runstate_paused": "bool", "Engine._runstate_holding": "bool",
           "Engine._runstate_stopping": "bool"},
    calls={"self.update_calculated_tags": component, "self.interpreter.tick": component, "self.set_error_state": component,
           "self._command_manager.tick": component, "self.read_process_image": component, "self.write_process_image": component,
           "self.notify_tag_updates": component, "self.tracking.tick": component, "self.uod.hwl.tick": component,
           "self._tick_timer.stop": lambda ctx, a, k: ctx.none()},
    raises=None, options={"lenient": True, "protected_prefixes": (), "opaque_subscript": True, "default_unroll": 1})
CONTRACTS = [tick_clock]
TARGETS = [tick_clock.key]
LEMMAS = [("tag-time-call-sites", lemma_sites), ("tag-value-direct-assignments", lemma_direct_assignments)]
LEVEL = "other"
TRUSTED = ["Tag.set_value stores the given time as the tag's tick_time when the value changes (tags.py, read not proved)",
           "the interpreter's `_tick_time` is the engine clock of the current tick; event handlers receive it as `tick_time` (for the engine itself this is an obligation on Engine.tick: the clock is set before any component that can stamp a tag runs)",
           "engine clock readings are non-decreasing (monotonicity and bounds of reported times follow from that)"]
CLAUSES = {"every reported value carries the engine clock time of its tick": "one call-site obligation per setter call in the seven files, and one obligation per Tag method that assigns self.value directly (both discovered on every run)",
           "times per tag never decrease / lie between engine start and the current tick": "follows from the call-site contract + monotone clock (assumed), not mechanised"}
EXPLANATION = "Call-site precondition of the Tag setters generated for every call site; time argument evaluated symbolically and compared with the clock term."
REPLAY_WITHOUT_WITNESS = False   # witnesses are the site descriptions


def replay(obligation, witness):
    import contracts.c16_native as n
    if "directly-assigned-value" in obligation:
        r = n.scenario_timer_tags_keep_a_stale_time()
        which = "Block Time" if "BlockTimeTag" in obligation else "Scope Time"
        hit = [x for x in r.get("stale", []) if x["tag"] == which]
        return {"confirmed": bool(hit) or (r["violated"] and "on_tick" not in obligation), **r}
    if "PInterpreter" in obligation:
        r = n.scenario_block_and_simulate()
        return {"confirmed": r["violated"], **r}
    return {"confirmed": False, "reason": "wall-clock stamp sites are not reached by a canned scenario; see the obligation text for the site"}


def _nat():
    import contracts.c16_native as n
    r = n.scenario_block_and_simulate()
    return {"ok": not r["violated"], "observation": r}


NATIVE = [("native:block-and-simulated-tag-times", _nat)]
