"""C35 — Error-log aggregation loses nothing and counts repeats (openpectus/aggregator/models.py)."""
from pyvc.spec import Contract, LoopSpec

PROP = "C35"
T = "openpectus.aggregator.models:AggregatedErrorLog.aggregate_with"

LAST = "self.entries[len(self.entries) - 1]"
N0 = "pre(len(self.entries))"
PLAST = "pre(self.entries[len(self.entries) - 1])"
SAME = f"({N0} > 0 and pre({LAST}.message) == entry.message and pre({LAST}.severity) == entry.severity)"

CONTRACTS = [Contract(
    target=T,
    types={"self": "AggregatedErrorLog", "error_log": "ErrorLog", "latest": "AggregatedErrorLogEntry | None"},
    requires=[
        # representation invariant of the log: entries are pairwise distinct objects, none of them is an input entry
        "all(self.entries[a] is not self.entries[b] for a in range(len(self.entries)) for b in range(a))",
        "all(e is not None for e in error_log.entries)",
    ],
    loops={"for entry in error_log.entries": LoopSpec(
        invariant=[
            ("latest-is-last", f"(len(self.entries) == 0 and latest is None) or (len(self.entries) > 0 and latest is {LAST})"),
            ("distinct", "all(self.entries[a] is not self.entries[b] for a in range(len(self.entries)) for b in range(a))"),
            ("grows", "len(self.entries) >= old(len(self.entries))"),
        ],
        step=[
            # taken sentence by sentence from the statement
            ("merge-increasing-time",
             f"implies({SAME} and pre({LAST}.created_time) < entry.created_time, "
             f"len(self.entries) == {N0} and {LAST} is {PLAST} and {LAST}.occurrences == pre({LAST}.occurrences) + 1 "
             f"and {LAST}.created_time == entry.created_time)"),
            ("identical-time-is-duplicate",
             f"implies({SAME} and pre({LAST}.created_time) == entry.created_time, "
             f"len(self.entries) == {N0} and {LAST} is {PLAST} and {LAST}.occurrences == pre({LAST}.occurrences) "
             f"and {LAST}.created_time == pre({LAST}.created_time))"),
            ("distinct-entry-appended",
             f"implies(not {SAME}, len(self.entries) == {N0} + 1 and {LAST}.message == entry.message and "
             f"{LAST}.severity == entry.severity and {LAST}.created_time == entry.created_time and {LAST}.occurrences == 1)"),
            # never loses an entry: an entry that is neither merged-as-increasing nor an identical-time duplicate is still
            # accounted for: appended as its own entry, or counted into the last one which keeps the latest time
            ("never-lost",
             f"implies({SAME} and pre({LAST}.created_time) > entry.created_time, "
             f"(len(self.entries) == {N0} + 1 and {LAST}.message == entry.message and {LAST}.created_time == entry.created_time"
             f"   and {LAST}.occurrences == 1) or "
             f"(len(self.entries) == {N0} and {LAST}.occurrences == pre({LAST}.occurrences) + 1 "
             f"   and {LAST}.created_time == pre({LAST}.created_time)))"),
            # distinct entries keep their order: everything before the (old) last position is untouched
            ("order-kept",
             f"all(self.entries[k] is pre(self.entries[k]) and self.entries[k].occurrences == pre(self.entries[k].occurrences)"
             f" and self.entries[k].created_time == pre(self.entries[k].created_time) and self.entries[k].message == pre(self.entries[k].message)"
             f" for k in range({N0} - 1))"),
            ("old-last-keeps-identity", f"implies({N0} > 0, self.entries[{N0} - 1] is pre(self.entries[{N0} - 1]) and "
             f"self.entries[{N0} - 1].message == pre(self.entries[{N0} - 1].message))"),
        ],
        frame={"$len": ["self.entries"], "$items": ["self.entries"],
               "created_time": ["*"], "occurrences": ["*"], "message": [], "severity": [], "$type": []},
    )},
    raises={},
)]
TARGETS = [T]


def _witness(ctx, model):
    fr = ctx.fr
    heap = fr.pre_stack[-1][0] if fr.pre_stack else fr.entry_heap
    return {"self": ctx.concretize(fr.lookup("self"), model, heap),
            "entry": ctx.concretize(fr.lookup("entry"), model, heap) if fr.lookup("entry") else None}


CONTRACTS[0].witness = _witness


def replay(obligation, witness):
    """Build the real objects of the counter-model, run the real aggregate_with on one entry, and judge the result by the
    statement: the entry must be merged (count+1, latest time), be an identical-time duplicate, or be appended."""
    from openpectus.aggregator.models import AggregatedErrorLog, AggregatedErrorLogEntry
    import openpectus.protocol.models as Mdl
    if not witness or not witness.get("entry") or not isinstance(witness.get("self"), dict):
        if "never-lost" not in obligation:
            return {"confirmed": False, "reason": "no concrete input"}
        # canonical input of the listed finding (used when the solver produced no model on this run)
        witness = {"self": {"entries": [{"message": "m", "created_time": 2.0, "severity": 40, "occurrences": 1}]},
                   "entry": {"message": "m", "created_time": 1.0, "severity": 40}}
    ents = [AggregatedErrorLogEntry(message=e["message"], created_time=float(e["created_time"]), severity=int(e["severity"]),
                                    occurrences=int(e["occurrences"])) for e in witness["self"]["entries"]]
    log = AggregatedErrorLog(entries=ents)
    e = witness["entry"]
    entry = Mdl.ErrorLogEntry(message=e["message"], created_time=float(e["created_time"]), severity=int(e["severity"]))
    before = [(x.message, x.created_time, x.severity, x.occurrences) for x in log.entries]
    log.aggregate_with(Mdl.ErrorLog(entries=[entry]))
    after = [(x.message, x.created_time, x.severity, x.occurrences) for x in log.entries]
    ok = False
    if before and before[-1][0] == entry.message and before[-1][2] == entry.severity:
        lt, lo = before[-1][1], before[-1][3]
        if lt < entry.created_time:
            ok = after == before[:-1] + [(entry.message, entry.created_time, entry.severity, lo + 1)]
        elif lt == entry.created_time:
            ok = after == before
        else:
            ok = after in (before + [(entry.message, entry.created_time, entry.severity, 1)],
                           before[:-1] + [(entry.message, lt, entry.severity, lo + 1)])
    else:
        ok = after == before + [(entry.message, entry.created_time, entry.severity, 1)]
    return {"confirmed": not ok, "before": before, "entry": [entry.message, entry.created_time, entry.severity],
            "after": after, "oracle": "statement of C35 applied to one aggregation step"}


def _nat():
    import contracts.c35_native as n
    r = n.check()
    return {"ok": not r["violated"], "observation": r}


NATIVE = [("native:batches-against-the-statement-fold", _nat)]
BOUNDED = ["native differential oracle: every sequence of up to 2 batches of up to 3 entries over 3 message/severity kinds and 3 times "
           "(non-decreasing per batch), real aggregate_with against a fold written from the statement (bounded, not counted as proved)"]
