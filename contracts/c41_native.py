"""Native scenarios for C41 (macro self-call detection) on the real parser / MacroNode."""


def _macros(pcode):
    from openpectus.lang.model.parser import PcodeParser
    import openpectus.lang.model.ast as p
    program = PcodeParser().parse_pcode(pcode)
    macros = {}
    for n in program.get_all_nodes():
        if isinstance(n, p.MacroNode):
            macros[n.name] = n
    return macros


def scenario_self_call_as_second_call():
    macros = _macros("Macro: A\n    Call macro: B\n    Call macro: A\nMacro: B\n    Mark: b\n")
    try:
        cascade = macros["A"].macro_calling_macro(macros)
    except RecursionError:
        return {"violated": True, "observation": "RecursionError"}
    return {"violated": "A" not in cascade, "cascade": cascade, "scenario": "macro A = [Call macro: B, Call macro: A]; the self call must be found"}


def scenario_cycle_among_other_macros():
    macros = _macros("Macro: A\n    Call macro: B\nMacro: B\n    Call macro: C\nMacro: C\n    Call macro: B\n")
    try:
        cascade = macros["A"].macro_calling_macro(macros)
    except RecursionError:
        return {"violated": True, "observation": "RecursionError while checking A (B and C call each other)", "scenario": "A -> B -> C -> B"}
    return {"violated": "A" in cascade, "cascade": cascade, "scenario": "A -> B -> C -> B: A does not call itself; the check must terminate"}


def scenario_indirect_via_second_call():
    macros = _macros("Macro: A\n    Call macro: B\n    Call macro: C\nMacro: B\n    Mark: b\nMacro: C\n    Call macro: A\n")
    try:
        cascade = macros["A"].macro_calling_macro(macros)
    except RecursionError:
        return {"violated": True, "observation": "RecursionError"}
    return {"violated": "A" not in cascade, "cascade": cascade, "scenario": "A = [Call B, Call C], C = [Call A]: indirect self call through the second call"}


ALL = [scenario_self_call_as_second_call, scenario_cycle_among_other_macros, scenario_indirect_via_second_call]
if __name__ == "__main__":
    for s in ALL:
        print(s.__name__, s())
