"""Native scenarios for C41 (macro self-call detection) on the real parser / MacroNode."""


def _macros(pcode):
    from openpectus.lang.model.parser import PcodeParser
    import openpectus.lang.model.ast as p
    program = PcodeParser().parse_pcode(pcode)
    macros = {}
    for n in program.get_all_nodes():
        if isinstance(n, p.MacroNode):
            macros[n.name] = n
    return macros


def scenario_self_call_as_second_call():
    macros = _macros("Macro: A\n    Call macro: B\n    Call macro: A\nMacro: B\n    Mark: b\n")
    try:
        cascade = macros["A"].macro_calling_macro(macros)
    except RecursionError:
        return {"violated": True, "observation": "RecursionError"}
    return {"violated": "A" not in cascade, "cascade": cascade, "scenario": "macro A = [Call macro: B, Call macro: A]; the self call must be found"}


def scenario_cycle_among_other_macros():
    macros = _macros("Macro: A\n    Call macro: B\nMacro: B\n    Call macro: C\nMacro: C\n    Call macro: B\n")
    try:
        cascade = macros["A"].macro_calling_macro(macros)
    except RecursionError:
        return {"violated": True, "observation": "RecursionError while checking A (B and C call each other)", "scenario": "A -> B -> C -> B"}
    return {"violated": "A" in cascade, "cascade": cascade, "scenario": "A -> B -> C -> B: A does not call itself; the check must terminate"}


def scenario_indirect_via_second_call():
    macros = _macros("Macro: A\n    Call macro: B\n    Call macro: C\nMacro: B\n    Mark: b\nMacro: C\n    Call macro: A\n")
    try:
        cascade = macros["A"].macro_calling_macro(macros)
    except RecursionError:
        return {"violated": True, "observation": "RecursionError"}
    return {"violated": "A" not in cascade, "cascade": cascade, "scenario": "A = [Call B, Call C], C = [Call A]: indirect self call through the second call"}


def scenario_self_call_nested_in_block_watch_alarm():
    out = []
    for title, src, must_find in [
            ("self call inside a Block of the macro body", "Macro: A\n    Mark: a\n    Block: X\n        Call macro: A\n        End block\n", True),
            ("self call inside a Watch of the macro body", "Macro: A\n    Mark: a\n    Watch: Run Counter > 0\n        Call macro: A\n", True),
            ("indirect self call through calls nested in a Block and an Alarm",
             "Macro: A\n    Block: X\n        Call macro: B\n        End block\nMacro: B\n    Alarm: Run Counter > 0\n        Call macro: A\n", True),
            ("two levels deep", "Macro: A\n    Block: X\n        Watch: Run Counter > 0\n            Call macro: A\n        End block\n", True),
            ("a nested macro DEFINITION that calls A is not a call made by A", "Macro: A\n    Macro: B\n        Call macro: A\n    Mark: a\n", False)]:
        macros = _macros(src)
        try:
            cascade = macros["A"].macro_calling_macro(macros)
        except RecursionError:
            return {"violated": True, "observation": "RecursionError", "scenario": title}
        if ("A" in cascade) != must_find:
            return {"violated": True, "scenario": title, "method": src, "cascade": cascade, "self_call_expected_to_be_found": must_find}
        out.append((title, cascade))
    return {"violated": False, "scenarios": out}


ALL = [scenario_self_call_nested_in_block_watch_alarm, scenario_self_call_as_second_call, scenario_cycle_among_other_macros, scenario_indirect_via_second_call]
if __name__ == "__main__":
    for s in ALL:
        print(s.__name__, s())


def scenario_edit_of_a_started_macro():
    """a macro whose call is in progress (first body line done, waiting in the second): changing a not yet executed body line
    through a live edit must be rejected"""
    import logging
    from openpectus.lang.exec.errors import MethodEditError
    from openpectus.lang.exec.uod import UodBuilder
    from openpectus.protocol.models import Method
    from openpectus.test.engine.utility_methods import EngineTestRunner
    logging.disable(logging.CRITICAL)

    def create_uod():
        uod = (UodBuilder().with_instrument("DemoUod").with_author("Demo", "demo@example.org").with_filename(__file__)
               .with_hardware_none().with_location("loc").build())
        uod.hwl.connect()
        return uod
    m1 = "01 Macro: M\n02     Mark: B\n03     Wait: 3s\n04     Mark: C\n05 Mark: A\n06 Call macro: M\n07 Mark: D\n"
    m2 = m1.replace("04     Mark: C", "04     Mark: X")
    try:
        runner = EngineTestRunner(create_uod, Method.from_numbered_pcode(m1), fail_on_log_error=False)
        with runner.run() as instance:
            instance.start()
            instance.run_until_instruction("Mark", state="completed", arguments="B", max_ticks=60)
            macro = instance.method_manager.program.macros["M"]
            started = (macro.run_started_count, macro.run_completed_count)
            try:
                instance.engine.set_method(Method.from_numbered_pcode(m2))
            except MethodEditError as ex:
                return {"violated": False, "scenario": "edit of a started macro", "rejected": str(ex)[:80]}
            return {"violated": True, "scenario": "edit of a started macro was accepted", "started_completed_counts": started}
    finally:
        logging.disable(logging.NOTSET)


ALL = list(ALL) + [scenario_edit_of_a_started_macro]
