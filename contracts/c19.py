"""C19 — Method analysis never crashes and flags undefined names (openpectus/lang/exec/analyzer.py), partial.

Contracts on the four analyzer methods that resolve names (the property's anchors):
  ConditionCheckAnalyzer.analyze_condition, SimulateCheckAnalyzer.visit_SimulateOffNode / visit_SimulateNode,
  CommandCheckAnalyzer.check_command_node
  (1) no exception escapes, for every node, every tag/command collection (with and without close spelling matches);
  (2) a name that the collection does not have leaves exactly one more ERROR item, on the node analysed;
  (3) a missing condition / missing tag / missing operator / missing value leaves an ERROR item on the node."""
import z3
from pyvc.spec import Contract
from pyvc.smt import Val, RID, IV, BV, SVs, NONE, mk_bool
from pyvc.state import SV
from pyvc.repo import Ty
from pyvc import heapops as H

PROP = "C19"
AZ = "openpectus.lang.exec.analyzer:"
LEVEL = "other"


def ratio(ctx, args, kwargs):
    """Levenshtein.ratio(a, b): some float in [0, 1]; never raises on strings"""
    r = ctx.fresh("ratio", "float")
    from pyvc.smt import RV
    ctx.assume(z3.And(RV(r.term) >= 0, RV(r.term) <= 1))
    return r


ratio.modifies = []


def units(ctx, args, kwargs):
    """get_compatible_unit_names(unit): a list of unit names; never raises"""
    out = ctx.fresh("units", "list[str]")
    ctx.ex.assume_type(out.term, out.ty, ctx.fr)
    return out


units.modifies = []


def comparable(ctx, args, kwargs):
    """are_comparable(a, b): a bool, or ValueError for an unknown unit (the only exception it raises)"""
    if ctx.choose(2, "are_comparable outcome") == 1:
        ctx.raise_("ValueError", "unknown unit")
    return ctx.fresh("comparable", "bool")


comparable.modifies = []


def super_visit(ctx, args, kwargs):
    """NodeVisitor.visit_<Node>(node): the generic child traversal generator (not under this contract)"""
    return ctx.fresh("gen", None)


super_visit.modifies = []


def validate_args(ctx, args, kwargs):
    """Command.validate_args(text): a bool (argument regexes are C22's subject); assumed not to raise"""
    return ctx.fresh("valid", "bool")


validate_args.modifies = []

def new_item(ctx, args, kwargs):
    """AnalyzerItem(id, message, node, type, ...): an item carrying that id, node and type. ASSUMED not to raise for parser-made nodes
    (its range arithmetic reads node.position / threshold / children); `length` and `end` must not both be given (checked here)"""
    both = ("length" in kwargs) and ("end" in kwargs)
    ctx.check("item-range-given-by-length-or-end-not-both", z3.BoolVal(not both), "call-site")
    return ctx.new_object("AnalyzerItem", id=args[0], message=args[1], node=args[2], type=args[3])


new_item.modifies = []

TYPES = {"AnalyzerItem.node": "Node | None", "AnalyzerItem.type": "AnalyzerItemType", "AnalyzerItem.id": "str",
         "TagValueCollection._tag_values": "dict[str, TagValue]", "CommandCollection.commands": "dict[str, Command]",
         "AnalyzerVisitorBase.items": "list[AnalyzerItem]", "Node.instruction_name": "str", "Node.arguments": "str",
         "Node.instruction_part": "str", "Node.has_argument": "bool", "Node.line": "str",
         "TagOperatorValue.tag_name": "str | None", "TagOperatorValue.op": "str", "TagOperatorValue.rhs": "str",
         "TagOperatorValue.tag_value": "str | None", "TagOperatorValue.tag_unit": "str | None", "TagValue.unit": "str | None",
         "NodeWithCondition.tag_operator_value": "TagOperatorValue | None", "SimulateNode.tag_operator_value": "TagOperatorValue | None"}
CALLS = {"AnalyzerItem": new_item, "ratio": ratio, "get_compatible_unit_names": units, "are_comparable": comparable,
         "super().visit_SimulateNode": super_visit, "super().visit_SimulateOffNode": super_visit,
         "command.validate_args": validate_args}
OPTS = {"lenient": True, "protected_prefixes": (), "opaque_subscript": True}
NEW_ERR = ("len(self.items) == old(len(self.items)) + 1 and self.items[len(self.items) - 1].node is node and "
           "self.items[len(self.items) - 1].type == AnalyzerItemType.ERROR")
NAME_OK = "node.tag_operator_value is not None and node.tag_operator_value.tag_name is not None and node.tag_operator_value.tag_name.strip() != ''"
UNDEF_TAG = f"({NAME_OK} and not has_key(self.tags._tag_values, node.tag_operator_value.tag_name))"

cond = Contract(
    target=AZ + "ConditionCheckAnalyzer.analyze_condition", raises={}, calls=CALLS, options=OPTS,
    types=dict(TYPES, self="ConditionCheckAnalyzer", node="NodeWithCondition", **{"ConditionCheckAnalyzer.tags": "TagValueCollection"}),
    ensures=[("an-undefined-tag-is-reported-as-an-error-on-this-node", f"implies(old({UNDEF_TAG}), {NEW_ERR})"),
             ("a-missing-condition-is-reported", f"implies(old(node.tag_operator_value is None), {NEW_ERR})"),
             ("a-missing-tag-name-is-reported", f"implies(old(node.tag_operator_value is not None and (node.tag_operator_value.tag_name is None or node.tag_operator_value.tag_name.strip() == '')), {NEW_ERR})"),
             ("a-missing-operator-or-value-is-reported",
              f"implies(old({NAME_OK} and has_key(self.tags._tag_values, node.tag_operator_value.tag_name) and (node.tag_operator_value.op == '' or node.tag_operator_value.rhs == '' or node.tag_operator_value.tag_value == '')), {NEW_ERR})"),
             ("at-most-one-item-per-call", "len(self.items) <= old(len(self.items)) + 1")])

sim = Contract(
    target=AZ + "SimulateCheckAnalyzer.visit_SimulateNode", raises={}, calls=CALLS, options=OPTS,
    types=dict(TYPES, self="SimulateCheckAnalyzer", node="SimulateNode", **{"SimulateCheckAnalyzer.tags": "TagValueCollection"}),
    ensures=[("an-undefined-tag-is-reported-as-an-error-on-this-node", f"implies(old({UNDEF_TAG}), {NEW_ERR})"),
             ("a-missing-assignment-is-reported", f"implies(old(node.tag_operator_value is None), {NEW_ERR})")])

simoff = Contract(
    target=AZ + "SimulateCheckAnalyzer.visit_SimulateOffNode", raises={}, calls=CALLS, options=OPTS,
    types=dict(TYPES, self="SimulateCheckAnalyzer", node="SimulateOffNode", **{"SimulateCheckAnalyzer.tags": "TagValueCollection"}),
    requires=["node.arguments is None or node.arguments == '' or node.arguments.strip() != ''"],
    ensures=[("an-undefined-tag-is-reported-as-an-error-on-this-node",
              f"implies(old(node.arguments is not None and node.arguments != '' and not has_key(self.tags._tag_values, node.arguments)), {NEW_ERR})"),
             ("a-missing-tag-name-is-reported", f"implies(old(node.arguments is None or node.arguments == ''), {NEW_ERR})")])

cmd = Contract(
    target=AZ + "CommandCheckAnalyzer.check_command_node", raises={}, calls=CALLS, options=OPTS,
    types=dict(TYPES, self="CommandCheckAnalyzer", node="Node", **{"CommandCheckAnalyzer.commands": "CommandCollection"}),
    requires=["node.instruction_name.strip() != '' or (is_instance(node, 'ErrorInstructionNode') and node.instruction_name == '' and node.line.strip() != '')"],
    ensures=[("an-undefined-command-is-reported-as-an-error-on-this-node",
              f"implies(old(not has_key(self.commands.commands, node.line if (node.instruction_name == '' and is_instance(node, 'ErrorInstructionNode')) else node.instruction_name)), {NEW_ERR})")])

CONTRACTS = [cond, sim, simoff, cmd]
TARGETS = [c.key for c in CONTRACTS]
TRUSTED = ["Levenshtein.ratio, get_compatible_unit_names, Command.validate_args do not raise; are_comparable raises only ValueError",
           "AnalyzerItem.__init__ and the generic NodeVisitor traversal (super().visit_*) do not raise",
           "the parser gives instruction nodes a non-blank instruction_name (blank only for ErrorInstructionNode, whose line is then used)"]
CLAUSES = {"analysis completes without raising": "raises={} on the four name-resolving analyzer methods (the other analyzers and the visitor framework are NOT under contract)",
           "every undefined tag/command reference and every incomplete condition is an error on the offending line": "postconditions (2), (3)"}
EXPLANATION = "Exception-freedom and reporting postconditions on the four analyzer methods that resolve names."


def replay(obligation, witness):
    """Native oracle: the real SemanticCheckAnalyzer on small method texts (names with and without close matches)."""
    import contracts.c19_native as n
    r = n.check_all()
    return {"confirmed": bool(r["violated"]), **r}


REPLAY_WITHOUT_WITNESS = True


def _nat():
    import contracts.c19_native as n
    r = n.check_all()
    return {"ok": not r["violated"], "observation": r}


NATIVE = [("native:analysis-of-small-methods-reports-and-never-raises", _nat)]
BOUNDED = ["18 small method texts through the real parser and SemanticCheckAnalyzer (bounded cross-check, not counted)"]
