"""C37 — Active-user list tracks live connections (aggregator.py FromFrontend)."""
import z3
from pyvc.spec import Contract, LoopSpec
from pyvc.smt import Val, RID, SVs, BV, mk_bool
from contracts.agg_common import A, BASE_CALLS, noop, opaque

PROP = "C37"
K = 3
CALLS = dict(BASE_CALLS, **{"self.publisher.publish_active_users_changed": opaque("coro")})
TYPES = {"self": "FromFrontend", "FromFrontend._engine_data_map": "dict[str, EngineData]",
         "FromFrontend.dead_man_switch_user_ids": "dict[str, str]", "EngineData.active_users": "dict[str, ActiveUser]",
         "EngineData.engine_id": "str", "subscriber_id": "str", "engine_id": "str", "user_id": "str", "user_name": "str"}
DM = "self.dead_man_switch_user_ids"
EM = "self._engine_data_map"
# separation: the three kinds of dictionaries are different objects, engines do not share an active-user dict
SEP = [f"{DM} is not {EM}",
       f"all({EM}[e].active_users is not {DM} and {EM}[e].active_users is not {EM} for e in {EM})",
       f"all(implies(e1 != e2, {EM}[e1].active_users is not {EM}[e2].active_users) for e1 in {EM} for e2 in {EM})"]
USER0 = f"old({DM}[subscriber_id])"
OTHER_LIVE = f"any(c != subscriber_id and old({DM}[c]) == {USER0} for c in keys_of(old({DM})))"

on_ws_disconnect = Contract(
    target=A + "FromFrontend.on_ws_disconnect", types=TYPES, calls=CALLS, raises={},
    requires=SEP + [f"has_key({DM}, subscriber_id)", f"len({DM}) <= {K}", f"len({EM}) <= 2"],
    ensures=[
        ("closed-connection-stops-counting", f"not has_key({DM}, subscriber_id)"),
        ("other-connections-keep-counting",
         f"all(implies(c != subscriber_id, has_key({DM}, c) and {DM}[c] == old({DM}[c])) for c in old({DM}))"),
        ("no-connection-appears", f"all(old(has_key({DM}, c)) for c in {DM})"),
        ("last-connection-closed=>user-removed-from-every-unit",
         f"implies(not {OTHER_LIVE}, all(not has_key({EM}[e].active_users, {USER0}) for e in {EM}))"),
        ("other-users-untouched",
         f"all(implies(u != {USER0}, has_key({EM}[e].active_users, u) == old(has_key({EM}[e].active_users, u))) "
         f"for e in {EM} for u in old({EM}[e].active_users))"),
        ("nobody-added", f"all(old(has_key({EM}[e].active_users, u)) for e in {EM} for u in {EM}[e].active_users)"),
    ],
    loops={"for engine_data in self._engine_data_map.values()": LoopSpec(unroll=2)},
    options={"comp_bound": K})

register = Contract(
    target=A + "FromFrontend.register_active_user", types=TYPES, calls=CALLS, raises={}, requires=SEP,
    ensures=[
        ("known-unit=>user-listed-there", f"implies(old(has_key({EM}, engine_id)), result == True and has_key({EM}[engine_id].active_users, user_id))"),
        ("unknown-unit=>refused", f"implies(not old(has_key({EM}, engine_id)), result == False)"),
        ("user-not-listed-on-any-other-unit-by-this-call",
         f"all(implies(e != engine_id, old(has_key({EM}[e].active_users, user_id)) or not has_key({EM}[e].active_users, user_id)) for e in {EM})"),
        ("nobody-removed", f"all(has_key({EM}[e].active_users, u) for e in {EM} for u in old({EM}[e].active_users))"),
        ("only-that-user-added",
         f"all(implies(u != user_id, old(has_key({EM}[e].active_users, u))) for e in {EM} for u in {EM}[e].active_users)"),
        ("connections-untouched", f"all(has_key({DM}, c) and {DM}[c] == old({DM}[c]) for c in old({DM})) and len({DM}) == old(len({DM}))"),
    ])

unregister = Contract(
    target=A + "FromFrontend.unregister_active_user", types=TYPES, calls=CALLS, raises={}, requires=SEP,
    ensures=[
        ("user-no-longer-listed-on-that-unit", f"implies(old(has_key({EM}, engine_id)), not has_key({EM}[engine_id].active_users, user_id))"),
        ("removes-exactly-that-user-from-exactly-that-unit",
         f"all(implies(not (e == engine_id and u == user_id), has_key({EM}[e].active_users, u)) for e in {EM} for u in old({EM}[e].active_users))"),
        ("nobody-added", f"all(old(has_key({EM}[e].active_users, u)) for e in {EM} for u in {EM}[e].active_users)"),
        ("connections-untouched", f"all(has_key({DM}, c) and {DM}[c] == old({DM}[c]) for c in old({DM})) and len({DM}) == old(len({DM}))"),
    ])

CONTRACTS = [on_ws_disconnect, register, unregister]
TARGETS = [c.target for c in CONTRACTS]
LEVEL = "other"
BOUNDED = [f"on_ws_disconnect: at most {K} recorded connections and 2 process units (comprehension and loop unrolled); "
           "register_active_user / unregister_active_user are loop-free and proved for all inputs"]
TRUSTED = ["publisher / asyncio.create_task calls do not touch the connection table or the active-user lists",
           "the connection table, the unit map and the per-unit active-user dicts are distinct objects (requires)"]
CLAUSES = {"listed only while registered and connected": "writers of active_users: register adds exactly that user on that unit, unregister removes exactly that one, on_ws_disconnect removes only the user whose last connection closed (frame postconditions)",
           "last connection closes => removed from every unit, however often they connected": "on_ws_disconnect postconditions closed-connection-stops-counting + last-connection-closed=>user-removed-from-every-unit (bounded)"}
EXPLANATION = "register/unregister proved; on_ws_disconnect bounded (3 connections, 2 units) on the real code."


def _nat():
    import contracts.agg_native as n
    r = n.scenario_two_connections_then_both_close()
    return {"ok": not r["violated"], "observation": r}


def replay(obligation, witness):
    import contracts.agg_native as n
    r = n.scenario_two_connections_then_both_close()
    return {"confirmed": r["violated"], "scenario": r}


def _nat2():
    import contracts.agg_native as n
    r = n.scenario_user_on_two_units()
    return {"ok": not r["violated"], "observation": r}


NATIVE = [("native:two-connections-then-both-close", _nat), ("native:user-on-two-units", _nat2)]
