"""C29 — Plot-log persistence is monotone, throttled and faithful (aggregator.py _persist_tag_values, models.py TagsInfo.upsert)."""
import z3
from pyvc.spec import Contract, LoopSpec
from pyvc.smt import Val, RID, RV, SVs, mk_ref, mk_bool, NONE
from pyvc.state import SV
from pyvc.repo import Ty
from contracts.agg_common import A, BASE_CALLS, logged, noop

PROP = "C29"
K = 3
FIELDS = ("name", "tick_time", "value", "value_unit", "value_formatted", "direction", "simulated")


def model_copy(ctx, args, kwargs):
    """pydantic model_copy(): a fresh TagValue with the same field values (ghost_src remembers the original)"""
    src = ctx.spec("tag_value")
    st = ctx.st
    r = st.new_ref()
    ci = ctx.ex.repo.resolve_class("TagValue")
    st.write("$type", r, z3.IntVal(ci.cid))
    for f in FIELDS:
        st.write(f, r, st.read(f, RID(src.term)))
    st.write("ghost_src", r, src.term)
    return SV(mk_ref(r), Ty("TagValue"))


model_copy.modifies = []
CALLS = dict(BASE_CALLS, **{"*.model_copy": model_copy,
                            "*.store_tag_values": logged("store_tag_values")})
TYPES = {"self": "FromEngine", "engine_data": "EngineData", "EngineData._run_data": "RunData | None",
         "EngineData.tags_info": "TagsInfo", "TagsInfo.map": "dict[str, TagValue]", "EngineData.data_log_interval_seconds": "float",
         "RunData.latest_persisted_tick_time": "float | None", "RunData.run_id": "str", "tag_values_to_persist": "list[TagValue]"}


def persist_exit(ctx, kind, result):
    if kind != "return":
        return
    st = ctx.st
    calls = ctx.ghost.get("store_tag_values", [])
    B = z3.BoolVal
    ctx.check("at-most-one-store-per-call", B(len(calls) <= 1), "postcondition")
    had_run = ctx.spec_bool("old(engine_data._run_data is not None)")
    LP0 = "old(engine_data._run_data.latest_persisted_tick_time)"
    first = ctx.spec_bool(f"{LP0} is None")
    if not calls:
        ctx.check("nothing-stored=>latest-persisted-time-unchanged",
                  z3.Implies(had_run, ctx.spec_bool(f"engine_data._run_data.latest_persisted_tick_time is {LP0}")), "postcondition")
        return
    (args, kw) = calls[0]
    rows = args[2]
    n = ctx.list_len(rows)
    T = ctx.spec("engine_data._run_data.latest_persisted_tick_time")
    lp0 = ctx.spec(LP0)
    interval = ctx.spec("engine_data.data_log_interval_seconds")
    ctx.check("stored-only-for-an-active-run", had_run, "postcondition")
    ctx.check("something-is-recorded", n >= 1, "postcondition")
    ctx.check("strictly-increasing-timestamps", z3.Implies(z3.Not(first), RV(T.term) > RV(lp0.term)), "postcondition")
    ctx.check("throttled:at-most-once-per-data-log-interval",
              z3.Implies(z3.Not(first), RV(T.term) - RV(lp0.term) > RV(interval.term)), "postcondition")
    ctx.check("run-id-of-the-active-run", SVs(args[1].term) == SVs(ctx.spec("engine_data._run_data.run_id").term), "postcondition")
    for k in range(K):
        row = ctx.list_get(rows, k, Ty("TagValue"))
        src = SV(st.read("ghost_src", RID(row.term)), Ty("TagValue"))
        g = k < n
        rd = lambda o, f: st.read(f, RID(o.term))
        in_map = ctx.spec_bool("has_key(engine_data.tags_info.map, s.name) and engine_data.tags_info.map[s.name] is s", s=src)
        ctx.check(f"row{k}:carries-the-recorded-time", z3.Implies(g, rd(row, "tick_time") == T.term), "postcondition")
        ctx.check(f"row{k}:faithful-value-and-name-of-a-reported-tag",
                  z3.Implies(g, z3.And(in_map, rd(row, "value") == rd(src, "value"), rd(row, "name") == rd(src, "name"))), "postcondition")
        ctx.check(f"row{k}:reported-at-or-before-the-recorded-time", z3.Implies(g, RV(rd(src, "tick_time")) <= RV(T.term)), "postcondition")
        ctx.check(f"row{k}:never-older-than-what-is-already-recorded",
                  z3.Implies(z3.And(g, z3.Not(first)), RV(rd(src, "tick_time")) > RV(lp0.term)), "postcondition")
        ctx.check(f"row{k}:reported-tag-objects-are-not-modified", z3.Implies(g, rd(src, "tick_time") == ctx.spec("old(s.tick_time)", s=src).term),
                  "postcondition")


persist = Contract(
    target=A + "FromEngine._persist_tag_values", types=TYPES, calls=CALLS, raises={}, on_exit=persist_exit,
    requires=["engine_data.data_log_interval_seconds >= 0",
              f"len(engine_data.tags_info.map) <= {K}", "len(engine_data.tags_info.map) >= 1",
              "all(engine_data.tags_info.map[k].name == k for k in engine_data.tags_info.map)"],
    loops={"for tag_value_to_persist in tag_values_to_persist": LoopSpec(unroll=K)},
    options={"comp_bound": K})

U = "TagsInfo.upsert"
upsert = Contract(
    target="openpectus.aggregator.models:" + U, types={"self": "TagsInfo", "tag_value": "TagValue", "TagsInfo.map": "dict[str, TagValue]"},
    calls={"datetime.fromtimestamp": lambda ctx, a, k: ctx.fresh("dt", None), "datetime.fromtimestamp(current.tick_time).strftime": noop,
           "datetime.fromtimestamp(tag_value.tick_time).strftime": noop},
    requires=["all(self.map[k].name == k for k in self.map)"], raises={},
    ensures=[("entry-carries-exactly-the-reported-value-and-time",
              "has_key(self.map, tag_value.name) and self.map[tag_value.name].value is tag_value.value "
              "and self.map[tag_value.name].tick_time == tag_value.tick_time and self.map[tag_value.name].name == tag_value.name"),
             ("other-entries-untouched",
              "all(implies(k != tag_value.name, old(has_key(self.map, k)) and self.map[k] is old(self.map[k]) and "
              "self.map[k].value is old(self.map[k].value) and self.map[k].tick_time == old(self.map[k].tick_time)) for k in self.map)"),
             ("no-entry-disappears", "all(has_key(self.map, k) for k in old(self.map))"),
             ("names-stay-keys", "all(self.map[k].name == k for k in self.map)"),
             ("result-says-inserted", "result == (not old(has_key(self.map, tag_value.name)))")])

CONTRACTS = [persist, upsert]
TARGETS = [c.target for c in CONTRACTS]
LEVEL = "other"
BOUNDED = [f"_persist_tag_values: the two comprehensions and the time-stamping loop unrolled for tag maps of at most {K} tags; TagsInfo.upsert is loop-free and proved for all inputs"]
TRUSTED = ["store_tag_values persists exactly the rows it is given", "pydantic model_copy yields a field-for-field copy", "floats as reals"]
CLAUSES = {"strictly increasing timestamps / throttled": "postconditions on _persist_tag_values (bounded 3 tags)",
           "never older than one already recorded; every recorded value was reported at or before the recorded time": "row postconditions via ghost_src (bounded 3 tags) + TagsInfo.upsert contract (proved): an entry always carries value and time of one reported message"}
EXPLANATION = "TagsInfo.upsert proved for all inputs; _persist_tag_values checked by a bounded stand-in (<= 3 tags) on the real code."
