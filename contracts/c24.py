"""C24 — No lost or stale hardware writes after an outage (openpectus/engine/hardware_recovery.py).

Ghost state lives in two ghost fields of every Register object:
  r.ghost_cmd  value of the latest write / write_batch call naming r            ("most recently commanded")
  r.ghost_hw   value of the latest SUCCESSFUL decorated write of r; unknown after a failed one ("what the hardware holds")
"""
import z3
from pyvc.spec import Contract, LoopSpec
from pyvc.smt import Val, IV, RID, mk_int, num, is_numeric, py_eq, mk_bool
from pyvc.state import SV
from pyvc.repo import Ty
from pyvc import heapops as H
from contracts.c23 import T_ERROR_EVENT
from contracts.recovery_common import M, S, ST, TYPES as T0, CALLS as CALLS0, INV, _may_fail

PROP = "C24"
LEVEL = "proof"
TYPES = dict(T0, **{"Register.ghost_cmd": "Any", "Register.ghost_hw": "Any", "pending_items": "list[tuple[Register, Any]]"})
D, OK, ISSUE, RECON, ERR = (ST(n) for n in ("Disconnected", "OK", "Issue", "Reconnect", "Error"))
DICT = lambda e: {"$dhas": [e], "$dval": [e], "$dcnt": [e], "$dord": [e], "$dpos": [e]}

isclose = z3.Function("isclose", z3.RealSort(), z3.RealSort(), z3.BoolSort())


def approx(ctx, a, b):
    """equal, or both numbers and math.isclose (the statement is read modulo the float tolerance of the change filter)"""
    both = z3.And(is_numeric(a.term), is_numeric(b.term))
    x, y = num(a.term), num(b.term)
    return SV(mk_bool(z3.Or(py_eq(a.term, b.term), z3.And(both, isclose(x, y)))), Ty("bool"))


def no_dec_failure(ctx):
    calls = ctx.ghost.get("decorated_calls", [])
    return SV(mk_bool(all(ok for _w, ok in calls)), Ty("bool"))


SPEC_FUNCS = {"approx": approx, "no_decorated_failure": no_dec_failure}


# ---- assumed contracts of the decorated hardware, with the ghost hardware image -------------------------------------------
def dec_write(ctx, args, kwargs):
    """decorated.write(v, r): on success the hardware holds v for r; on failure the hardware value of r is unknown"""
    v, r = args
    # (2) a buffered value is never written after a newer one: what is written is the latest commanded value
    ctx.check("hardware-write-carries-the-latest-commanded-value", v.term == ctx.st.read("ghost_cmd", RID(r.term)), "call-site")
    k = ctx.choose(2, "decorated.write outcome")
    ctx.ghost.setdefault("decorated_calls", []).append(("decorated.write", k == 0))
    if k == 1:
        ctx.st.write("ghost_hw", RID(r.term), ctx.st.fresh_val("hw_unknown"))
        ctx.raise_("HardwareLayerException", "decorated.write failed")
    ctx.st.write("ghost_hw", RID(r.term), v.term)
    return ctx.none()


dec_write.modifies = ["ghost_hw"]


def _posof(ctx, regs):
    """index function of a list of pairwise distinct registers: posof[rid(regs[m])] == m"""
    st = ctx.st
    pos = st.fresh("posof", z3.ArraySort(z3.IntSort(), z3.IntSort()))
    m = z3.Int("po!m")
    n = ctx.list_len(regs)
    el = H.list_get(st, RID(regs.term), m)
    st.assume(z3.ForAll([m], z3.Implies(z3.And(0 <= m, m < n), z3.Select(pos, RID(el)) == m)))
    return pos, n


def _bulk_update(ctx, fld, regs, vals, unknown=False, unless=None):
    """fld[regs[m]] := vals[m] for all m (regs pairwise distinct); with unknown=True those entries become arbitrary;
    `unless` (z3 Bool): when it holds nothing changes"""
    st = ctx.st
    pos, n = _posof(ctx, regs)
    old = st.field(fld)
    new = st.fresh("H!" + fld, old.sort())
    x = z3.Int("bu!x")
    p = z3.Select(pos, x)
    hit = z3.And(0 <= p, p < n, RID(H.list_get(st, RID(regs.term), p)) == x)
    if unknown:
        st.assume(z3.ForAll([x], z3.Implies(z3.Not(hit), z3.Select(new, x) == z3.Select(old, x))))
    else:
        st.assume(z3.ForAll([x], z3.Select(new, x) == z3.If(hit, H.list_get(st, RID(vals.term), p), z3.Select(old, x))))
    st.heap[fld] = new if unless is None else z3.If(unless, old, new)


def dec_write_batch(ctx, args, kwargs):
    """decorated.write_batch(vs, rs): on success the hardware holds vs[m] for rs[m]; on failure those are unknown"""
    vs, rs = args
    st = ctx.st
    m = z3.Int("wb!m")
    n = ctx.list_len(rs)
    ctx.check("hardware-write-carries-the-latest-commanded-value",
              z3.ForAll([m], z3.Implies(z3.And(0 <= m, m < n),
                                        H.list_get(st, RID(vs.term), m) == st.read("ghost_cmd", RID(H.list_get(st, RID(rs.term), m))))),
              "call-site")
    k = ctx.choose(2, "decorated.write_batch outcome")
    ctx.ghost.setdefault("decorated_calls", []).append(("decorated.write_batch", k == 0))
    _bulk_update(ctx, "ghost_hw", rs, vs, unknown=(k == 1))
    if k == 1:
        ctx.raise_("HardwareLayerException", "decorated.write_batch failed")
    return ctx.none()


dec_write_batch.modifies = ["ghost_hw"]
CALLS = dict(CALLS0, **{"self.decorated.write": dec_write, "self.decorated.write_batch": dec_write_batch})

# ---- representation invariant ---------------------------------------------------------------------------------------------
UNIQUE = "forall_objects('Register', lambda x: forall_objects('Register', lambda y: implies(x.name == y.name, x is y)))"
P = ("P:buffer-holds-only-the-newest-request", "all(self.pending_writes[k] is k.ghost_cmd for k in self.pending_writes)")
Q = ("Q:change-filter-memory-mirrors-the-hardware",
     "forall_objects('Register', lambda x: implies(has_key(self.last_success_writes, x.name), "
     "x.ghost_hw is self.last_success_writes[x.name]))")
R = ("R:buffered-registers-are-not-remembered-as-written",
     "all(not has_key(self.last_success_writes, k.name) for k in self.pending_writes)")
CINV = INV + [P, Q, R]
WRITABLE = "RegisterDirection.Write in r.direction"
STATUS_FRAME = {"state": ["self"], "value": ["self.connection_status_tag"], "_is_connected": ["self.decorated"],
                "last_state_reconnect_time": ["self"]}


def merge(*ds):
    out = {}
    for d in ds:
        for k, v in d.items():
            out[k] = out.get(k, []) + v
    return out


def _isclose_axioms(ctx):
    a, b = z3.Reals("ic!a ic!b")
    ctx.assume(z3.ForAll([a], isclose(a, a)))
    ctx.assume(z3.ForAll([a, b], isclose(a, b) == isclose(b, a), patterns=[isclose(a, b)]))


def _cmd_single(ctx):
    _isclose_axioms(ctx)
    r, v = ctx.local("r"), ctx.local("value")
    # a call rejected with HardwareLayerException (states Disconnected / Error) is not a commanded value: the engine sees it fail
    down = ctx.spec_bool(f"self.state in [{D}, {ERR}]")
    ctx.st.write("ghost_cmd", RID(r.term), z3.If(down, ctx.st.read("ghost_cmd", RID(r.term)), v.term))


error_read_write = Contract(
    target=M + "error_read_write", types=TYPES, requires=INV, calls=CALLS, raises={},
    ensures=INV + [("transition", T_ERROR_EVENT), ("memory-cleared", "len(self.last_success_writes) == 0"),
                   ("no-entry-left", "forall_objects('Register', lambda x: not has_key(self.last_success_writes, x.name))"),
                   ("error-states-persist", f"implies(old(self.state) == {ERR}, self.state == {ERR})"),
                   ("error-only-from-reconnect", f"implies(self.state == {ERR}, old(self.state) in [{RECON}, {ERR}])")],
    modifies=merge(STATUS_FRAME, DICT("self.last_success_writes")))

write_pending = Contract(
    target=M + "_write_pending_values", types=TYPES, requires=CINV + [UNIQUE], calls=CALLS, raises={}, ghost_init=_isclose_axioms,
    ensures=CINV + [("state-unchanged", "self.state == old(self.state)"),
                    ("excepted-names-not-touched",
                     "forall_objects('Register', lambda x: implies(any(x.name == except_names[j] for j in range(len(except_names))), "
                     "x.ghost_hw == old(x.ghost_hw)))")],
    loops={"for register, value in pending_items": LoopSpec(
        invariant=[P, Q, R,
                   ("rest-of-snapshot-still-buffered",
                    "all(has_key(self.pending_writes, pending_items[j][0]) and self.pending_writes[pending_items[j][0]] is pending_items[j][1] "
                    "for j in range(idx, len(pending_items)))"),
                   ("snapshot-keys-distinct", "all(pending_items[a][0] is not pending_items[b][0] for a in range(len(pending_items)) for b in range(a))"),
                   ("excepted-names-not-touched",
                    "forall_objects('Register', lambda x: implies(any(x.name == except_names[j] for j in range(len(except_names))), "
                    "x.ghost_hw == old(x.ghost_hw)))")],
        frame=merge(DICT("self.pending_writes"), {"ghost_hw": ["*"]}))},
    modifies=merge(DICT("self.pending_writes"), {"ghost_hw": ["*"]}))

write = Contract(
    target=M + "write", types=TYPES, requires=CINV + [UNIQUE, WRITABLE], calls=CALLS, ghost_init=_cmd_single,
    raises={"HardwareLayerException": f"old(self.state) in [{D}, {ERR}]"},
    exc_ensures={"*": CINV},
    ensures=CINV + [
        ("(1) after-a-clean-successful-write-the-hardware-holds-the-commanded-value",
         f"implies(self.state == {OK} and no_decorated_failure(), approx(r.ghost_hw, value))")])

BOUND = 1
U = LoopSpec(unroll=BOUND)


def _cmd_batch(ctx):
    _isclose_axioms(ctx)
    down = ctx.spec_bool(f"self.state in [{D}, {ERR}]")
    _bulk_update(ctx, "ghost_cmd", ctx.local("registers"), ctx.local("values"), unless=down)


ALL_WRITABLE = "all(RegisterDirection.Write in x.direction for x in registers)"
write_batch = Contract(
    target=M + "write_batch", types=TYPES, calls=CALLS, ghost_init=_cmd_batch,
    requires=CINV + [UNIQUE, ALL_WRITABLE, "len(values) == len(registers)", f"len(registers) <= {BOUND}",
                     "all(registers[a] is not registers[b] for a in range(len(registers)) for b in range(a))"],
    raises={"HardwareLayerException": f"old(self.state) in [{D}, {ERR}]"},
    exc_ensures={"*": CINV},
    ensures=CINV + [
        ("(1) after-a-clean-successful-write-cycle-every-register-holds-the-commanded-value",
         f"implies(self.state == {OK} and no_decorated_failure(), "
         f"all(approx(old(registers)[i].ghost_hw, old(values)[i]) for i in range(len(old(registers)))))")],
    loops={"for r in registers": U, "for r in registers#1": U,
           "for value, r in zip(values, registers)": U, "for value, r in zip(values, registers)#1": U,
           "for value, register in zip(values, registers)": U,
           "for value, register in zip(values, registers, strict=True)": U})

CONTRACTS = [error_read_write, write_pending, write]      # write_batch: see BOUNDED / NATIVE below
BOUNDED = ["write_batch is NOT under a discharged contract: its VCs (bulk ghost update of the hardware image over a symbolic batch) were "
           "left `unknown` by z3/cvc5 even for batches of one register. Stand-in, labelled bounded and not counted as proved: six native "
           "scenarios on the real write / write_batch with a scripted failing hardware (stale buffered value after a newer one; float after "
           "None / after a string), see contracts/c24_native.py"]


TARGETS = [c.target for c in CONTRACTS]
TRUSTED = ["decorated.write/write_batch: success => hardware holds the written values; failure => those hardware values unknown",
           "register names are unique among Register objects (the registers dict is keyed by name)",
           "math.isclose reflexive and symmetric (otherwise uninterpreted)", "recovery callbacks do not raise",
           "a call rejected with HardwareLayerException (states Disconnected/Error) does not count as a commanded value"]


def _native(name, fn):
    def run():
        r = fn()
        return {"ok": not r["violated"], "observation": r}
    return (name, run)


import contracts.c24_native as _n
NATIVE = [_native("native:buffered-value-of-another-register-survives/write", lambda: _n.scenario_buffered_value_of_another_register_survives(False)),
          _native("native:buffered-value-of-another-register-survives/write_batch", lambda: _n.scenario_buffered_value_of_another_register_survives(True)),
          _native("native:stale-buffered-value/write", lambda: _n.scenario_stale_pending(False)),
          _native("native:stale-buffered-value/write_batch", lambda: _n.scenario_stale_pending(True)),
          _native("native:float-after-None/write", lambda: _n.scenario_float_after_non_number(False, None)),
          _native("native:float-after-None/write_batch", lambda: _n.scenario_float_after_non_number(True, None)),
          _native("native:float-after-str/write", lambda: _n.scenario_float_after_non_number(False, "x")),
          _native("native:float-after-str/write_batch", lambda: _n.scenario_float_after_non_number(True, "x"))]
CLAUSES = {"a buffered value is never written after a newer value": "call-site obligation hardware-write-carries-the-latest-commanded-value at every decorated.write in write and _write_pending_values + invariant P (proved, all histories); write_batch: native scenarios only",
           "after a successful write cycle the register holds the most recently commanded value": "postcondition (1) of write (proved); write_batch: native scenarios only",
           "induction over fault sequences": "class invariant INV+P+Q+R assumed at entry and re-established on every normal and exceptional exit of write / _write_pending_values / error_read_write"}
EXPLANATION = ("Ghost fields on Register objects (latest commanded value, value held by the hardware) + class invariant P/Q/R on the real "
               "ErrorRecoveryDecorator.write, _write_pending_values and error_read_write; two genuine defects found by failed obligations "
               "were repaired in /repo (fix: commits) and the obligations now discharge.")


def replay(obligation, witness):
    """schematic replay: the failed obligations of this class correspond to the native fault scenarios"""
    res = _n.all_scenarios()
    bad = [r for r in res if r["violated"]]
    return {"confirmed": bool(bad), "scenarios": bad or res}
