"""C33 — Push notifications reach exactly the entitled subscribers (openpectus/aggregator/webpush_publisher.py).

Contracts on the real functions:
  (a) routers.auth:has_access                      result <=> no required roles, or some required role is among the user's roles;
  (b) WebPushPublisher._get_subscriptions_for_topic every returned subscription belongs to a user with a preference record p among the
      records the repository returned for the topic such that has_access(unit, set(p.user_roles)) and p's scope selects the unit
      (all accessible / contributed-to with the user among the unit's contributors / listed units containing the unit's id);
      the returned rows are pairwise distinct;
  (c) WebPushPublisher.publish_message              every subscription posted is one of those rows, each row is posted at most once, and a
      NEW_CONTRIBUTOR notification carrying data is never posted to the contributor it names.
The two SQL queries of WebPushRepository (JSON `contains(topic)`, `user_id IN (...)`) are assumed contracts (stated in the handlers)."""
import z3
from pyvc.spec import Contract, LoopSpec
from pyvc.smt import Val, RID, IV, mk_bool, mk_int
from pyvc.state import SV
from pyvc.repo import Ty
from pyvc import heapops as H

PROP = "C33"
W = "openpectus.aggregator.webpush_publisher:WebPushPublisher."
LEVEL = "proof"

HAf = z3.Function("HAS_ACCESS", Val, Val, z3.BoolSort())   # has_access(unit, set(<roles list>)) — the real function, contract (a)


def HA(ctx, unit, roles):
    return SV(mk_bool(HAf(unit.term, roles.term)), Ty("bool"))


SPEC_FUNCS = {"HA": HA}

TYPES = {"self": "WebPushPublisher", "topic": "NotificationTopic", "process_unit": "EngineData", "notification": "WebPushNotification",
         "EngineData.contributors": "set[Contributor]", "EngineData.required_roles": "set[str]", "EngineData.engine_id": "str",
         "Contributor.id": "str | None",
         "WebPushNotificationPreferences.user_id": "str", "WebPushNotificationPreferences.user_roles": "list[str]",
         "WebPushNotificationPreferences.scope": "NotificationScope", "WebPushNotificationPreferences.process_units": "list[str]",
         "WebPushNotificationPreferences.topics": "list[NotificationTopic]",
         "WebPushSubscription.user_id": "str", "WebPushNotification.data": "WebPushData", "WebPushData.contributor_id": "str | None",
         "WebPushNotification.timestamp": "int | None", "WebPushPublisher.wp": "WebPush | None"}


# ---- (a) has_access -------------------------------------------------------------------------------------------------------
has_access = Contract(
    target="openpectus.aggregator.routers.auth:has_access", raises={},
    types={"engine_or_run": "EngineData", "user_roles": "set[str]", "EngineData.required_roles": "set[str]", "required_roles": "set[str]"},
    ensures=[("access-iff-no-required-roles-or-a-shared-role",
              "result == (len(engine_or_run.required_roles) == 0 or any(r in user_roles for r in engine_or_run.required_roles))")])


# ---- assumed repository queries ---------------------------------------------------------------------------------------------
def get_prefs(ctx, args, kwargs):
    """WebPushRepository.get_notification_preferences_for_topic(topic): preference rows whose topics contain the topic (SQL, assumed)"""
    out = ctx.fresh("prefs", "list[WebPushNotificationPreferences]")
    ctx.ex.assume_type(out.term, out.ty, ctx.fr)
    ctx.ghost["prefs"] = out
    ctx.ghost["topic_arg"] = args[0]
    return out


def get_subs(ctx, args, kwargs):
    """WebPushRepository.get_subscriptions(ids): the subscription rows whose user_id is in ids, each row once (SQL IN, assumed)"""
    ids = args[0]
    st = ctx.st
    out = ctx.fresh("subs", "list[WebPushSubscription]")
    ctx.ex.assume_type(out.term, out.ty, ctx.fr)
    n = H.list_len(st, RID(out.term))
    m = H.list_len(st, RID(ids.term))
    sidx = st.fresh("sidx", z3.ArraySort(z3.IntSort(), z3.IntSort()))
    k, k2 = z3.Int(st.fresh_name("sk")), z3.Int(st.fresh_name("sk2"))
    sub = lambda i: H.list_get(st, RID(out.term), i)
    ctx.assume(z3.ForAll([k], z3.Implies(z3.And(0 <= k, k < n),
                                         z3.And(0 <= z3.Select(sidx, k), z3.Select(sidx, k) < m,
                                                H.list_get(st, RID(ids.term), z3.Select(sidx, k)) == st.read("user_id", RID(sub(k)))))))
    ctx.assume(z3.ForAll([k, k2], z3.Implies(z3.And(0 <= k, k < k2, k2 < n), sub(k) != sub(k2))))
    ctx.ghost["ids"] = ids
    return out


def has_access_call(ctx, node):
    """has_access(unit, set(roles)) under its own contract (a): an uninterpreted predicate of the unit and the recorded role list"""
    ex = ctx.ex
    unit = ex.ev(node.args[0], ctx.fr)
    a1 = node.args[1]
    if not (isinstance(a1, z3.ExprRef) or (hasattr(a1, "func") and getattr(a1.func, "id", "") == "set" and len(a1.args) == 1)):
        from pyvc.state import Unsupported
        raise Unsupported("has_access called with something other than set(<recorded roles>)")
    roles = ex.ev(a1.args[0], ctx.fr)
    return SV(mk_bool(HAf(unit.term, roles.term)), Ty("bool"))


has_access_call.raw = True

SCOPE = "NotificationScope."
ENT = ("(p.user_id == s.user_id and HA(process_unit, p.user_roles) and ("
       f"p.scope == {SCOPE}PROCESS_UNITS_I_HAVE_ACCESS_TO"
       f" or (p.scope == {SCOPE}PROCESS_UNITS_WITH_RUNS_IVE_CONTRIBUTED_TO and any(c.id == p.user_id for c in process_unit.contributors))"
       f" or (p.scope == {SCOPE}SPECIFIC_PROCESS_UNITS and process_unit.engine_id in p.process_units)))")

ENTU = ENT.replace("s.user_id", "u")
get_for_topic = Contract(
    target=W + "_get_subscriptions_for_topic", types=dict(TYPES, webpush_repo="WebPushRepository"), raises={},
    calls={"*.get_notification_preferences_for_topic": get_prefs, "*.get_subscriptions": get_subs,
           "has_access": has_access_call},
    ensures=[             ("lemma:queried-ids-are-entitled-users", f"all(any({ENTU} for p in ghost('prefs')) for u in ghost('ids'))"),
             ("every-returned-subscription-belongs-to-an-entitled-user",
              f"all(any({ENT} for p in ghost('prefs')) for s in result)"),
             ("the-preferences-were-fetched-for-this-topic", "ghost('topic_arg') is topic"),
             ("rows-are-pairwise-distinct", "all(implies(i < j, result[i] is not result[j]) for i in range(len(result)) for j in range(len(result)))")])


# ---- (c) publish_message ------------------------------------------------------------------------------------------------------
def get_for_topic_call(ctx, args, kwargs):
    """self._get_subscriptions_for_topic under contract (b): distinct rows, every one entitled (ENTITLED predicate)"""
    st = ctx.st
    out = ctx.fresh("subs", "list[WebPushSubscription]")
    ctx.ex.assume_type(out.term, out.ty, ctx.fr)
    n = H.list_len(st, RID(out.term))
    k, k2 = z3.Int(st.fresh_name("sk")), z3.Int(st.fresh_name("sk2"))
    sub = lambda i: H.list_get(st, RID(out.term), i)
    ctx.assume(z3.ForAll([k, k2], z3.Implies(z3.And(0 <= k, k < k2, k2 < n), sub(k) != sub(k2))))
    ctx.ghost["subs"] = out
    ctx.ghost["topic_arg"] = args[0]
    ctx.ghost["unit_arg"] = args[1]
    return out


def post_webpush(ctx, args, kwargs):
    """self._post_webpush(subscription, repo, notification): ghost count of posts per subscription row"""
    st = ctx.st
    r = RID(args[0].term)
    st.write("ghost_posted", r, mk_int(IV(st.read("ghost_posted", r)) + 1))
    ctx.check("the-notification-posted-is-the-one-published", args[2].term == ctx.local("notification").term, "call-site")
    return ctx.fresh("coro", None)


def opaque(ctx, node):
    """asyncio / database-scope plumbing: no effect on which subscriptions are posted"""
    return ctx.fresh("opaque", None)


opaque.raw = True


def passthrough(ctx, args, kwargs):
    """asyncio.create_task(coro): schedules the coroutine it is given (the coroutine call itself is evaluated)"""
    return args[0]


def with_scope(ctx, phase, kw):
    """database.create_scope(): session scope, no effect on which subscriptions are posted"""
    return None


def ghost_init(ctx):
    ctx.ghost["subs"] = ctx.new_list(elems=[], ty="list[WebPushSubscription]")
    ctx.ghost["topic_arg"] = ctx.local("topic")
    ctx.ghost["unit_arg"] = ctx.local("process_unit")


def now(ctx, args, kwargs):
    """time.time(): some real"""
    return ctx.fresh("now", "float")


POSTED_INV = ["all(implies(j >= idx, subscriptions[j].ghost_posted == 0) for j in range(len(subscriptions)))",
              "all(subscriptions[j].ghost_posted <= 1 for j in range(len(subscriptions)))",
              "forall_objects('WebPushSubscription', lambda s: implies(s.ghost_posted > 0, any(subscriptions[j] is s for j in range(idx))))",
              "forall_objects('WebPushSubscription', lambda s: implies(s.ghost_posted > 0 and topic is NotificationTopic.NEW_CONTRIBUTOR and notification.data is not None, s.user_id != notification.data.contributor_id))"]

publish = Contract(
    target=W + "publish_message", types=dict(TYPES, **{"WebPushSubscription.ghost_posted": "int"}), raises=None, ghost_init=ghost_init,
    requires=["forall_objects('WebPushSubscription', lambda s: s.ghost_posted == 0)"],
    calls={"self._get_subscriptions_for_topic": get_for_topic_call, "self._post_webpush": post_webpush,
           "asyncio.create_task": passthrough, "asyncio.gather": opaque, "with database.create_scope()": with_scope,
           "database.scoped_session": opaque, "WebPushRepository": opaque, "time.time": now},
    ensures=[("only-rows-returned-for-the-topic-and-unit-are-posted",
              "forall_objects('WebPushSubscription', lambda s: implies(s.ghost_posted > 0, any(x is s for x in ghost('subs'))))"),
             ("the-rows-were-selected-for-this-topic-and-unit", "ghost('topic_arg') is topic and ghost('unit_arg') is process_unit"),
             ("each-subscription-is-posted-at-most-once", "forall_objects('WebPushSubscription', lambda s: s.ghost_posted <= 1)"),
             ("a-new-contributor-notification-never-goes-to-the-contributor-it-is-about",
              "forall_objects('WebPushSubscription', lambda s: implies(s.ghost_posted > 0 and topic is NotificationTopic.NEW_CONTRIBUTOR "
              "and notification.data is not None, s.user_id != notification.data.contributor_id))")],
    loops={"for subscription in subscriptions": LoopSpec(invariant=POSTED_INV)})

for _h in (get_prefs, get_subs, has_access_call, get_for_topic_call, post_webpush, opaque, passthrough, now):
    _h.modifies = []       # none of the assumed calls writes a field the contracts read
post_webpush.modifies = ["ghost_posted"]
CONTRACTS = [has_access, get_for_topic, publish]
TARGETS = [c.key for c in CONTRACTS]
TRUSTED = ["WebPushRepository.get_notification_preferences_for_topic returns the preference rows whose topics contain the topic (SQL JSON contains)",
           "WebPushRepository.get_subscriptions(ids) returns each subscription row whose user_id is in ids exactly once (SQL IN)",
           "set(list) has exactly the list's elements; asyncio.create_task / gather run each created coroutine once",
           "_post_webpush posts to exactly the subscription it is given (httpx/webpush libraries external)",
           "publish_test_message (a test message to one user's own subscriptions) is outside the statement"]
CLAUSES = {"sent only to subscribers whose recorded roles grant access and whose preferences select that topic and unit": "(b) + (a); topic selection is the assumed SQL query, proved to be asked for the same topic",
           "each subscription is notified at most once": "(c) loop invariant over pairwise distinct rows",
           "a new-contributor notification never goes to the contributor it is about": "(c)"}
EXPLANATION = "Three function contracts; the entitlement predicate is a postcondition with an existential over the fetched preference rows."


def replay(obligation, witness):
    """Native oracle: the real methods against an in-memory repository / recording sender over an exhaustive small domain."""
    import contracts.c33_native as n
    if "has_access" in obligation:
        r = n.check_has_access()
    elif "publish_message" in obligation:
        r = n.check_publish()
        if not r["violated"]:
            r = n.check_get_subscriptions()
    else:
        r = n.check_get_subscriptions()
        if not r["violated"]:
            r = n.check_publish()
    return {"confirmed": bool(r["violated"]), **r}


REPLAY_WITHOUT_WITNESS = True


def _nat(fn):
    def run():
        import contracts.c33_native as n
        r = getattr(n, fn)()
        return {"ok": not r["violated"], "observation": r}
    return run


NATIVE = [("native:selection-over-exhaustive-small-domain", _nat("check_get_subscriptions")),
          ("native:publish-over-small-domain", _nat("check_publish"))]
BOUNDED = ["native scenarios (2 users, 3 scopes, 2 role sets, 3 required-role sets, all contributor subsets): bounded cross-check of the contracts' reading of the code, never counted as proved"]
