"""C30 — Each run yields exactly one recent run and one plot log (aggregator.py FromEngine.run_started / run_stopped / engine_disconnected)."""
import z3
from pyvc.spec import Contract
from pyvc.smt import Val, RID, SVs, BV, mk_bool
from contracts.agg_common import A, BASE_CALLS, TYPES, logged, noop, disconnect_notification

PROP = "C30"
CALLS = dict(BASE_CALLS, **{
    "*.create_plot_log": logged("create_plot_log"),
    "*.store_recent_run": logged("store_recent_run"),
    "*.store_recent_engine": logged("store_recent_engine"),
    "self.publish_engine_disconnected_notification": disconnect_notification,
})


def _entry(ctx):
    """entry-state facts about the engine named by the message"""
    eid = ctx.spec("old(msg.engine_id)") if ctx.local("msg") is not None else ctx.spec("old(engine_id)")
    known = ctx.spec_bool("old(has_key(self._engine_data_map, msg.engine_id))") if ctx.local("msg") is not None else \
        ctx.spec_bool("old(has_key(self._engine_data_map, engine_id))")
    return eid, known


def _n(log):
    return len(log)


STOREDf = z3.Function("RUN_ALREADY_STORED", z3.StringSort(), z3.BoolSort())     # a RecentRun row with that run id exists


def get_by_run_id(ctx, args, kwargs):
    """RecentRunRepository.get_by_run_id(run_id): the stored run with that id, or None (ghost predicate RUN_ALREADY_STORED)"""
    if ctx.decide(STOREDf(SVs(args[0].term)), "a recent run with this id is already stored"):
        return ctx.fresh("recent_run_row", "RecentRun")
    return ctx.none()


get_by_run_id.modifies = []


def run_started_exit(ctx, kind, result):
    if kind != "return":
        return
    plots = ctx.ghost.get("create_plot_log", [])
    stores = ctx.ghost.get("store_recent_run", [])
    known = ctx.spec_bool("old(has_key(self._engine_data_map, msg.engine_id))")
    ED = "self._engine_data_map[msg.engine_id]"
    active0 = ctx.spec_bool(f"old({ED}._run_data is not None)")
    same0 = ctx.spec_bool(f"old({ED}._run_data.run_id == msg.run_id)")
    ended = z3.And(STOREDf(SVs(ctx.spec("msg.run_id").term)), z3.Not(z3.And(active0, same0)))   # the run named by the message has ended and is stored
    B = z3.BoolVal
    ctx.check("unknown-engine:nothing-created", z3.Implies(z3.Not(known), B(len(plots) == 0 and len(stores) == 0)), "postcondition")
    ctx.check("resent-for-a-run-that-has-ended:nothing-created-nothing-stored",
              z3.Implies(z3.And(known, ended), B(len(plots) == 0 and len(stores) == 0)), "postcondition")
    ctx.check("resent-for-a-run-that-has-ended:active-run-unchanged",
              z3.Implies(z3.And(known, ended), ctx.spec_bool(f"{ED}._run_data is old({ED}._run_data)")), "postcondition")
    ctx.check("new-run:exactly-one-plot-log-and-no-recent-run",
              z3.Implies(z3.And(known, z3.Not(active0), z3.Not(ended)), B(len(plots) == 1 and len(stores) == 0)), "postcondition")
    ctx.check("duplicate-run-started:no-second-plot-log-no-recent-run",
              z3.Implies(z3.And(known, active0, same0), B(len(plots) == 0 and len(stores) == 0)), "postcondition")
    ctx.check("other-run-active:old-run-stored-once-new-run-gets-one-plot-log",
              z3.Implies(z3.And(known, active0, z3.Not(same0), z3.Not(ended)), B(len(plots) == 1 and len(stores) == 1)), "postcondition")
    for (args, kw) in plots:
        ctx.check("plot-log-is-for-the-started-run", SVs(args[1].term) == SVs(ctx.spec("msg.run_id").term), "postcondition")
    if plots:
        ctx.check("started-run-is-the-active-run-afterwards",
                  ctx.spec_bool(f"{ED}._run_data is not None and {ED}._run_data.run_id == msg.run_id"), "postcondition")
    ctx.check("duplicate-run-started:run-unchanged",
              z3.Implies(z3.And(known, active0, same0), ctx.spec_bool(f"{ED}._run_data is old({ED}._run_data)")), "postcondition")


def run_stopped_exit(ctx, kind, result):
    if kind != "return":
        return
    stores = ctx.ghost.get("store_recent_run", []) + ctx.ghost.get("store_recent_run!failed", [])
    plots = ctx.ghost.get("create_plot_log", [])
    known = ctx.spec_bool("old(has_key(self._engine_data_map, msg.engine_id))")
    ED = "self._engine_data_map[msg.engine_id]"
    active0 = ctx.spec_bool(f"old({ED}._run_data is not None)")
    B = z3.BoolVal
    ctx.check("no-active-run:nothing-stored", z3.Implies(z3.Or(z3.Not(known), z3.Not(active0)), B(len(stores) == 0)), "postcondition")
    ctx.check("active-run:stored-exactly-once", z3.Implies(z3.And(known, active0), B(len(stores) == 1)), "postcondition")
    ctx.check("never-creates-a-plot-log", B(len(plots) == 0), "postcondition")
    ctx.check("run-ended-afterwards", z3.Implies(z3.And(known, active0), ctx.spec_bool(f"{ED}._run_data is None")), "postcondition")
    # the stored run is the one that was active (engine_data passed while it still carries that run)


def disconnected_exit(ctx, kind, result):
    if kind != "return":
        return
    B = z3.BoolVal
    known = ctx.spec_bool("old(has_key(self._engine_data_map, engine_id))")
    eng = ctx.ghost.get("store_recent_engine", [])
    # the recent-engine row is what a later re-registration restores the run from: it must be rewritten at EVERY disconnect of a
    # known engine (run id if a run is active, None otherwise), otherwise a finished run can be restored and stored twice
    ctx.check("recent-engine-row-rewritten-at-every-disconnect-of-a-known-engine", z3.Implies(known, B(len(eng) == 1)), "postcondition")
    ctx.check("unknown-engine-stores-nothing", z3.Implies(z3.Not(known), B(len(eng) == 0)), "postcondition")
    ctx.check("disconnect-creates-no-plot-log-and-stores-no-recent-run",
              B(len(ctx.ghost.get("create_plot_log", [])) == 0 and len(ctx.ghost.get("store_recent_run", [])) == 0), "postcondition")


def store_at_call(key):
    base = logged(key, may_raise="Exception")

    def h(ctx, args, kwargs):
        # the engine_data handed to store_recent_run still carries the run being stored
        ed = args[0]
        ctx.check("stored-engine-data-still-has-its-run", z3.Not(Val.is_VNone(ctx.st.read("_run_data", RID(ed.term)))), "call-site")
        return base(ctx, args, kwargs)
    h.modifies = []
    h.__doc__ = base.__doc__
    return h


CALLS_STOP = dict(CALLS, **{"*.store_recent_run": store_at_call("store_recent_run")})


def store_superseded(ctx, args, kwargs):
    """store_recent_run(engine_data) in run_started: what is stored must be the run that was active when the message arrived (the
    engine data still carries that run object), not the run that is being started"""
    ED = "self._engine_data_map[msg.engine_id]"
    ctx.check("the-stored-run-is-the-superseded-one", ctx.spec_bool(f"{ED}._run_data is not None and {ED}._run_data is old({ED}._run_data)"),
              "call-site")
    return logged("store_recent_run")(ctx, args, kwargs)


store_superseded.modifies = []
CALLS_START = dict(CALLS, **{"*.store_recent_run": store_superseded, "*.get_by_run_id": get_by_run_id})

CONTRACTS = [
    Contract(target=A + "FromEngine.run_started", types=TYPES, calls=CALLS_START, raises={}, on_exit=run_started_exit),
    Contract(target=A + "FromEngine.run_stopped", types=dict(TYPES, msg="RunStoppedMsg"), calls=CALLS_STOP, raises={}, on_exit=run_stopped_exit),
    Contract(target=A + "FromEngine.engine_disconnected", types=TYPES, calls=CALLS, raises={}, on_exit=disconnected_exit),
]
TARGETS = [c.target for c in CONTRACTS]
TRUSTED = ["RecentRunRepository.get_by_run_id(id) is not None exactly when a recent run with that id has been stored (ghost predicate)",
           "create_plot_log adds exactly one PlotLog row for the given run id; store_recent_run adds exactly one RecentRun row for engine_data's run "
           "(it may raise; the handlers in run_stopped catch that)", "database scope / session / publisher calls do not touch aggregator run state",
           "in run_started the store of a superseded, still active run is assumed to succeed: a database failure is not among the disturbances the "
           "property quantifies over (observed by a seed agent, not claimed either way: if that store raises, the new run's plot log is still created "
           "while the old run stays active, and a resent run_started then creates a second plot log)"]
CLAUSES = {"exactly one plot log per run": "run_started postconditions by case (unknown engine / new run / duplicate / other run active); run_stopped and engine_disconnected never create one",
           "exactly one recent run per run": "run_stopped stores exactly once iff a run was active and ends it (a second stop finds no run); run_started stores only a DIFFERENT still-active run, once",
           "regardless of duplicated notifications": "the duplicate cases are explicit postconditions; induction over message histories is the per-operation argument (run becomes active only through run_started / restore)"}
EXPLANATION = "Path-complete postconditions over ghost logs of repository calls on the real FromEngine.run_started / run_stopped / engine_disconnected."


def replay(obligation, witness):
    import contracts.agg_native as n
    if "resent-for-a-run-that-has-ended" in obligation:
        r = n.scenario_run_started_resent_after_the_run_stopped()
        return {"confirmed": r["violated"], "scenario": r}
    r = n.scenario_duplicate_run_started()
    return {"confirmed": r["violated"], "scenario": r}


def _nat():
    import contracts.agg_native as n
    r = n.scenario_duplicate_run_started()
    return {"ok": not r["violated"], "observation": r}


def _nat2():
    import contracts.agg_native as n
    r = n.scenario_run_started_resent_after_the_run_stopped()
    return {"ok": not r["violated"], "observation": r}


NATIVE = [("native:duplicate-start-and-stop", _nat), ("native:run-started-resent-after-the-run-stopped", _nat2)]
BOUNDED = ["native scenario run_started x2 / run_stopped x2 on the real FromEngine with counting fake repositories (bounded, not counted as proved)"]
