"""C38 — Distinct engines never share an engine id (aggregator.py create_engine_id, handle_RegisterEngineMsg)."""
import z3
from pyvc.spec import Contract
from pyvc.smt import Val, SVs, BV, mk_str, mk_bool
from pyvc.state import SV
from pyvc.repo import Ty

PROP = "C38"
CREATE = "openpectus.aggregator.aggregator:Aggregator.create_engine_id"
HANDLE = "openpectus.aggregator.aggregator_message_handlers:AggregatorMessageHandlers.handle_RegisterEngineMsg"
HASCONN = "openpectus.protocol.aggregator_dispatcher:AggregatorDispatcher.has_connected_engine_id"
LEVEL = "proof"


def _quote(ctx, args, kwargs):
    """urllib.parse.quote(s, safe='') is injective (unquote inverts it)"""
    q = z3.Function("quote", z3.StringSort(), z3.StringSort())
    uq = z3.Function("unquote", z3.StringSort(), z3.StringSort())
    s = SVs(args[0].term)
    ctx.assume(uq(q(s)) == s)          # injectivity through the inverse
    return SV(mk_str(q(s)), Ty("str"))


_quote.modifies = []


def _msg(ctx, tag):
    c, u = ctx.fresh("computer_name" + tag, "str"), ctx.fresh("uod_name" + tag, "str")
    m = ctx.new_object("RegisterEngineMsg", computer_name=c, uod_name=u)
    return m, c, u


def lemma_injective(ctx):
    """(c1,u1) != (c2,u2)  ==>  create_engine_id(m1) != create_engine_id(m2), on the real function body"""
    agg = ctx.fresh("agg", "Aggregator")
    m1, c1, u1 = _msg(ctx, "1")
    m2, c2, u2 = _msg(ctx, "2")
    id1 = ctx.call(CREATE, [m1], self_sv=agg)
    id2 = ctx.call(CREATE, [m2], self_sv=agg)
    ctx.assume(z3.Or(c1.term != c2.term, u1.term != u2.term))

    def wit(model):
        g = lambda sv: model.eval(SVs(sv.term), model_completion=True).as_string()
        return {"computer_name1": g(c1), "uod_name1": g(u1), "computer_name2": g(c2), "uod_name2": g(u2)}
    ctx.check_w("distinct-pairs-give-distinct-ids", id1.term != id2.term, wit, "lemma")
    # the same statement restricted to computer names without the separator character: must hold even while the
    # unrestricted form is a listed known finding (so a different way of colliding is still reported)
    nous = z3.And(z3.Not(z3.Contains(SVs(c1.term), z3.StringVal("_"))), z3.Not(z3.Contains(SVs(c2.term), z3.StringVal("_"))))
    ctx.check_w("distinct-pairs-give-distinct-ids[no '_' in computer names]", z3.Implies(nous, id1.term != id2.term), wit, "lemma")


# ---- second sentence: a registration cannot take over the id of a connected engine -------------------------------------
def _has_connected(ctx, args, kwargs):
    """dispatcher.has_connected_engine_id(id): ghost predicate `connected`"""
    f = z3.Function("connected", z3.StringSort(), z3.BoolSort())
    return SV(mk_bool(f(SVs(args[0].term))), Ty("bool"))


_has_connected.modifies = []


def _register(ctx, args, kwargs):
    """from_engine.register_engine_data: records that a registration of this id happened (ghost)"""
    ed = args[0]
    ctx.ghost.setdefault("registered_ids", []).append(ctx.read(ed, "engine_id", "str"))
    return ctx.none()


_register.modifies = []


def _has_registered(ctx, args, kwargs):
    f = z3.Function("registered", z3.StringSort(), z3.BoolSort())
    return SV(mk_bool(f(SVs(args[0].term))), Ty("bool"))


_has_registered.modifies = []


def _noop(ctx, args, kwargs):
    """functools cache_clear: no effect on the state this property speaks about"""
    return ctx.none()


_noop.modifies = []


def _on_exit(ctx, kind, result):
    if kind != "return":
        return
    f = z3.Function("connected", z3.StringSort(), z3.BoolSort())
    msg = ctx.local("register_engine_msg")
    # the id this registration asks for, computed by the real create_engine_id
    agg = ctx.spec("self.aggregator")
    eid = ctx.call(CREATE, [msg], self_sv=agg)
    taken = f(SVs(eid.term))
    succ = ctx.read(result, "success", "bool")
    ctx.check("connected-id-is-refused", z3.Implies(taken, z3.Not(BV(succ.term))), "postcondition")
    regs = ctx.ghost.get("registered_ids", [])
    ctx.check("connected-id-not-reregistered",
              z3.Implies(taken, z3.And([SVs(r.term) != SVs(eid.term) for r in regs]) if regs else z3.BoolVal(True)), "postcondition")


CONTRACTS = [
    Contract(target=CREATE, inline=True, calls={"quote": _quote},
             types={"register_engine_msg": "RegisterEngineMsg"}),
    Contract(target=HANDLE,
             types={"self": "AggregatorMessageHandlers", "register_engine_msg": "RegisterEngineMsg",
                    "AggregatorMessageHandlers.aggregator": "Aggregator"},
             calls={"self.aggregator.dispatcher.has_connected_engine_id": _has_connected,
                    "self.aggregator.from_engine.register_engine_data": _register,
                    "self.aggregator.has_registered_engine_id": _has_registered,
                    "create_analysis_input.cache_clear": _noop},
             on_exit=_on_exit),
    # the ghost predicate `connected` IS membership of the id in the dispatcher's channel map (keyed by the ids create_engine_id issues)
    Contract(target=HASCONN, types={"self": "AggregatorDispatcher", "engine_id": "str",
                                    "AggregatorDispatcher._engine_id_channel_map": "dict[str, RpcChannel]"},
             ensures=[("connected-means-the-exact-id-is-a-key-of-the-channel-map",
                       "result == has_key(self._engine_id_channel_map, engine_id)")], raises={},
             options={"lenient": True}),
]
TARGETS = [HANDLE, HASCONN]
REPLAY_WITHOUT_WITNESS = True
LEMMAS = [("create_engine_id-injective", lemma_injective)]
TRUSTED = ["urllib.parse.quote(s, '') injective (assumed; unquote is its inverse)",
           "the channel map is keyed by the ids create_engine_id issued (on_client_connect stores the id the engine was given)"]
CLAUSES = {"different (computer,uod) pairs get different ids": "lemma create_engine_id-injective (all strings)",
           "a registration cannot take over a connected engine's id": "postconditions connected-id-is-refused / connected-id-not-reregistered on handle_RegisterEngineMsg (all paths)"}
EXPLANATION = ("Relational lemma over two symbolic executions of the real create_engine_id body (string theory, all inputs) "
               "and path-complete postconditions on the real handle_RegisterEngineMsg.")


def replay(obligation, witness):
    from openpectus.aggregator.aggregator import Aggregator
    import openpectus.protocol.engine_messages as EM
    if "has_connected_engine_id" in obligation:
        from openpectus.protocol.aggregator_dispatcher import AggregatorDispatcher
        d = object.__new__(AggregatorDispatcher)
        ids = ["pc_uod", "PC%201_uod", "PC%2B1_uod", "lab%2Fpc_uod", "Pr%C3%B8ve_uod", "a%25b_uod"]
        for present in ids:
            d._engine_id_channel_map = {present: object()}
            for asked in ids + ["PC 1_uod", "PC+1_uod", "a%b_uod"]:
                if bool(d.has_connected_engine_id(asked)) != (asked == present):
                    return {"confirmed": True, "channel_map_keys": [present], "asked": asked, "answer": bool(d.has_connected_engine_id(asked))}
        return {"confirmed": False, "reason": "the ids tried are answered exactly"}
    if "computer_name1" not in (witness or {}):
        return {"confirmed": False, "reason": "no concrete input"}

    def mk(c, u):
        return EM.RegisterEngineMsg(computer_name=c, uod_name=u, uod_author_name="", uod_author_email="", uod_filename="",
                                    location="", engine_version="", secret="")
    a = (witness["computer_name1"], witness["uod_name1"])
    b = (witness["computer_name2"], witness["uod_name2"])
    id1 = Aggregator.create_engine_id(None, mk(*a))
    id2 = Aggregator.create_engine_id(None, mk(*b))
    return {"confirmed": a != b and id1 == id2, "pair1": a, "pair2": b, "id1": id1, "id2": id2}
