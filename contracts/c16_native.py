"""Native scenario for C16: Block tag / simulated tag times vs. the engine clock (real engine, test runner of the repo)."""


def scenario_block_and_simulate():
    from openpectus.test.engine.utility_methods import EngineTestRunner
    from openpectus.test.engine.test_engine import create_test_uod
    program = "Block: A\n    Simulate: FT01 = 7\n    Mark: x\n    End block\nMark: y\n"
    runner = EngineTestRunner(create_test_uod, program)
    with runner.run() as instance:
        t_start = instance.engine._tick_time
        instance.start_run()
        instance.run_until_instruction("Mark", arguments="x")
        e = instance.engine
        block, ft = e.tags["Block"], e.tags["FT01"]
        obs = {"engine_clock": e._tick_time, "engine_tick_number": e._tick_number, "Block.value": block.get_value(),
               "Block.tick_time": block.tick_time, "FT01.simulated": ft.simulated, "FT01.tick_time": ft.tick_time}
        bad = []
        for name, t in (("Block", block.tick_time), ("FT01", ft.tick_time)):
            # the reported time must be an engine clock reading of this run: not before the start, not after the current tick
            if not (e._tick_time - 3600.0 <= t <= e._tick_time + 1e-6):
                bad.append(name)
        obs["violated"] = bool(bad)
        obs["tags_with_non_clock_time"] = bad
        return obs


if __name__ == "__main__":
    print(scenario_block_and_simulate())


def scenario_wallclock_sites():
    """time.time() inside the tag / archiver / recovery modules is shifted +1000 s: every tag that afterwards reports a time
    beyond the engine clock was stamped by a wall-clock reading instead of the tick's engine time"""
    import time as _time
    from openpectus.test.engine.utility_methods import EngineTestRunner
    from openpectus.test.engine.test_engine import create_test_uod
    import openpectus.lang.exec.tags_impl as tags_impl
    import openpectus.engine.archiver as archiver
    import openpectus.engine.hardware_recovery as rec

    class Shifted:
        def __getattr__(self, n):
            return getattr(_time, n)

        @staticmethod
        def time():
            return _time.time() + 1000.0
    saved = (tags_impl.time, archiver.time, rec.time)
    tags_impl.time = archiver.time = rec.time = Shifted()
    try:
        program = "Block: A\n    Mark: x\n    End block\nMark: y\nStop\n"
        runner = EngineTestRunner(create_test_uod, program)
        with runner.run() as instance:
            instance.start_run()
            instance.run_until_instruction("Mark", arguments="y")
            instance.run_ticks(3)
            e = instance.engine
            late = sorted(t.name for t in e.tags if t.tick_time is not None and t.tick_time > e._tick_time + 500.0)
            return {"violated": bool(late), "tags_stamped_with_wall_clock": late, "engine_clock": e._tick_time}
    finally:
        tags_impl.time, archiver.time, rec.time = saved


def scenario_timer_tags_keep_a_stale_time():
    """Block Time / Scope Time change their value every tick of a block, by plain assignment: their tick_time stays at an earlier tick"""
    from openpectus.test.engine.utility_methods import EngineTestRunner
    from openpectus.test.engine.test_engine import create_test_uod
    program = "Block: A\n    Mark: x\n    Wait: 0.5s\n    Mark: z\n    End block\nMark: y\n"
    runner = EngineTestRunner(create_test_uod, program)
    with runner.run() as instance:
        instance.start_run()
        instance.run_until_instruction("Mark", arguments="x")
        e = instance.engine
        stale = []
        prev = {n: (e.tags[n].get_value(), e.tags[n].tick_time) for n in ("Block Time", "Scope Time")}
        for _ in range(4):
            instance.run_ticks(1)
            for n in ("Block Time", "Scope Time"):
                v, t = e.tags[n].get_value(), e.tags[n].tick_time
                if v != prev[n][0] and t != e._tick_time:
                    stale.append({"tag": n, "value": v, "previous_value": prev[n][0], "tag_time": t, "engine_clock_of_the_tick": e._tick_time})
                prev[n] = (v, t)
        return {"violated": bool(stale), "stale": stale[:4]}
