"""C08 — Outputs with a safe value are safe whenever no run is progressing (partial: the safe state reaches the hardware).

`_apply_safe_state` only sets the TAGS of the output registers that declare a safe value; the hardware sees them when the process image
is written. `write_process_image` returns without writing while `_runstate_started` is False. Contracts on the real functions:
  (a) Engine._run (engine start): after the safe state was applied, the process image is written to the hardware (hwl.write_batch is
      called at least once after _apply_safe_state) — on every path, in particular with no run started;
  (b) StopEngineCommand._run: the explicit write_process_image that follows _apply_safe_state happens while `_runstate_started` is still
      True, i.e. before the flag that would make it a no-op is cleared;
  (c) PauseEngineCommand._run: the safe state is applied while the run is started (the tick's write phase then writes it)."""
import z3
from pyvc.spec import Contract
import contracts.c06 as c06
from contracts.runstate import EN, CALLS as RS_CALLS

PROP = "C08"
LEVEL = "other"
E = "openpectus.engine.engine:Engine."


def ev(name):
    def h(ctx, args, kwargs):
        ctx.ghost.setdefault("events", []).append(name)
        return ctx.fresh("opaque", None)
    h.modifies = []
    h.__doc__ = f"{name}: recorded in the ghost event sequence (not followed)"
    return h


def run_exit(ctx, kind, result):
    if kind != "return":
        return
    evs = ctx.ghost.get("events", [])
    ok = "safe" in evs and "hw-write" in evs[evs.index("safe"):]
    ctx.check_w("safe-state-is-written-to-the-hardware-at-engine-start", z3.BoolVal(ok), lambda m: {"events_in_order": evs}, "postcondition")


run = Contract(target=E + "_run", types={"self": "Engine", "Engine._runstate_started": "bool", "Register.direction": "RegisterDirection"}, raises=None, on_exit=run_exit,
               requires=["not self._runstate_started"],
               calls={"self._apply_safe_state": ev("safe"), "*.write_batch": ev("hw-write"), "self.emitter.*": ev("emit"),
                      "self._tick_timer.*": ev("timer"), "self.set_error_state": ev("error-state")},
               options={"lenient": True, "protected_prefixes": (), "opaque_subscript": True})


# ---- Stop / Pause: ordering relative to the started flag -----------------------------------------------------------------------------
def safe_then(ctx, args, kwargs):
    """e._apply_safe_state(): tags of the safe outputs set (ghost event); as in the run-state contracts"""
    ctx.ghost.setdefault("events", []).append("safe")
    ctx.check_w("safe-state-applied-while-the-run-is-started", ctx.spec_bool(f"{EN}._runstate_started == True"),
                lambda m: {"note": "the tick's write phase only writes while started"}, "call-site")
    return RS_CALLS["e._apply_safe_state"](ctx, args, kwargs)


def explicit_write(ctx, args, kwargs):
    """e.write_process_image(): writes only while `_runstate_started`"""
    evs = ctx.ghost.setdefault("events", [])
    ctx.check_w("explicit-write-after-the-safe-state-is-not-skipped", z3.And(z3.BoolVal("safe" in evs), ctx.spec_bool(f"{EN}._runstate_started == True")),
                lambda m: {"events_in_order": list(evs)}, "call-site")
    evs.append("hw-write")
    return ctx.none()


safe_then.modifies = getattr(RS_CALLS["e._apply_safe_state"], "modifies", [])
explicit_write.modifies = []


def stop_exit(ctx, kind, result):
    if kind != "return":
        return
    evs = ctx.ghost.get("events", [])
    active = ctx.spec_bool(f'old({EN}.ghost_sys_state) not in ["Stopped", "Restarting"]')
    ok = "safe" in evs and "hw-write" in evs[evs.index("safe"):]
    ctx.check_w("stop-of-an-active-run-writes-the-safe-state", z3.Implies(active, z3.BoolVal(ok)), lambda m: {"events_in_order": evs}, "postcondition")
    # cancelling the running commands may rewrite outputs (Pause.cancel restores the pre-pause values): the safe state must be applied afterwards
    late = "safe" in evs and "cancel-all" in evs and evs.index("cancel-all") < len(evs) - 1 - evs[::-1].index("safe")
    ctx.check_w("safe-state-is-applied-after-the-commands-were-cancelled", z3.Implies(active, z3.BoolVal(late)), lambda m: {"events_in_order": evs}, "postcondition")


def _variant(cls, calls, on_exit=None):
    base = [c for c in c06.CONTRACTS if c.target.endswith(cls + "._run")][0]
    return Contract(target=base.target, variant="safe", types=base.types, calls=dict(base.calls, **calls), requires=base.requires, ensures=[],
                    raises=base.raises, loops=base.loops, on_yield=base.on_yield, on_exit=on_exit, options=base.options)


def cancel_all(ctx, args, kwargs):
    """e.cancel_all_commands(...): cancelling commands may rewrite outputs (a cancelled timed Pause restores its snapshot)"""
    ctx.ghost.setdefault("events", []).append("cancel-all")
    return ctx.none()


cancel_all.modifies = []
stop = _variant("StopEngineCommand", {"e._apply_safe_state": safe_then, "e.write_process_image": explicit_write, "e.cancel_all_commands": cancel_all}, stop_exit)
pause = _variant("PauseEngineCommand", {"e._apply_safe_state": safe_then})


# ---- (d) the error pause: set_error_state pauses the run (System State Paused): it must put the outputs into their safe state too -------
def err_exit(ctx, kind, result):
    if kind != "return":
        return
    evs = ctx.ghost.get("events", [])
    active = ctx.spec_bool("old(self._runstate_started) and not old(self._runstate_paused)")
    ctx.check_w("an-error-pause-of-an-active-run-applies-the-safe-state", z3.Implies(active, z3.BoolVal("safe" in evs)),
                lambda m: {"events_in_order": evs}, "postcondition")


error_pause = Contract(target=E + "set_error_state", types={"self": "Engine", "Engine._runstate_started": "bool", "Engine._runstate_paused": "bool"},
                       raises=None, on_exit=err_exit,
                       calls={"self._apply_safe_state": ev("safe"), "self._emitter.*": ev("emit"), "self.emitter.*": ev("emit")},
                       options={"lenient": True, "protected_prefixes": (), "opaque_subscript": True})
CONTRACTS = [run, stop, pause, error_pause]
TARGETS = [c.key for c in CONTRACTS]
TRUSTED = ["_apply_safe_state sets exactly the tags of the Write registers that declare safe_value; write_process_image maps tags to their registers "
           "(loops over the register table: followed leniently, values not proved)", "Engine.tick's write phase writes the image on every tick of a started run",
           "hardware write_batch stores what it is given (C24/C25)"]
CLAUSES = {"safe from engine start until the first run starts": "(a) the write that carries the safe state at engine start actually happens",
           "after every Stop": "(b)", "throughout every pause": "(c) Pause and (d) the error pause (set_error_state): mechanism only (the values written during the pause are not proved; a UOD command that keeps executing during the pause is NOT covered)",
           "unless the user commands the output; no other value while no run is active": "NOT covered"}
EXPLANATION = "Partial claim: event-order obligations showing that an applied safe state reaches a hardware write."


def replay(obligation, witness):
    import contracts.c08_native as n
    if "set_error_state" in obligation:
        r = n.error_pause_leaves_outputs_unsafe()
        return {"confirmed": bool(r["violated"]), **r}
    r = n.safe_value_written_at_engine_start()
    return {"confirmed": bool(r["violated"]), **r}


REPLAY_WITHOUT_WITNESS = True


def _nat():
    import contracts.c08_native as n
    r = n.safe_value_written_at_engine_start()
    return {"ok": not r["violated"], "observation": r}


NATIVE = [("native:safe-value-on-the-hardware-after-engine-start", _nat)]
BOUNDED = ["one native scenario with a recording hardware layer (bounded, not counted)"]
