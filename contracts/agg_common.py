"""Assumed contracts shared by the aggregator properties (database / repositories / publisher as ghost logs)."""
import z3
from pyvc.smt import Val, RID, SVs, mk_bool
from pyvc.state import SV
from pyvc.repo import Ty

A = "openpectus.aggregator.aggregator:"


def opaque(name, ty=None):
    def h(ctx, args, kwargs):
        return ctx.fresh(name, ty)
    h.modifies = []
    h.__doc__ = f"{name}: opaque value, no effect on the state this property speaks about"
    return h


def noop(ctx, args, kwargs):
    """no effect on the state this property speaks about"""
    return ctx.none()


noop.modifies = []


def disconnect_notification(ctx, args, kwargs):
    """FromEngine.publish_engine_disconnected_notification(engine_id): reads self._engine_data_map[engine_id] (KeyError otherwise), so it must
    be issued while the engine's data is still registered; the web push itself has no effect on aggregator state"""
    from pyvc import heapops as H
    m = ctx.spec("self._engine_data_map")
    ctx.check_w("disconnect-notification-is-issued-while-the-engine-data-is-still-registered",
                H.dict_has(ctx.st, RID(m.term), args[0].term), lambda model: {"call": "publish_engine_disconnected_notification"}, "call-site")
    return ctx.none()


disconnect_notification.modifies = []


def with_scope(ctx, phase, kwargs):
    """database.create_scope(): context manager without effect on aggregator state"""
    return None


with_scope.modifies = []


def logged(key, result_ty=None, may_raise=None):
    """repository call recorded in the ghost log `key` with its arguments (assumed: performs exactly that one row operation)"""
    def h(ctx, args, kwargs):
        if may_raise is not None and ctx.choose(2, key + " outcome") == 1:
            ctx.ghost.setdefault(key + "!failed", []).append((args, kwargs))
            ctx.raise_(may_raise, key + " failed")
        ctx.ghost.setdefault(key, []).append((args, kwargs))
        return ctx.fresh(key, result_ty) if result_ty else ctx.none()
    h.modifies = []
    h.__doc__ = f"repository operation `{key}` recorded in a ghost log" + (f"; may raise {may_raise}" if may_raise else "")
    return h


PUBLISH = {name: opaque("coro") for name in (
    "self.publisher.publish_control_state_changed", "self.publisher.publish_process_units_changed",
    "self.publisher.publish_method_state_changed", "self.publisher.publish_run_log_changed",
    "self.publisher.publish_error_log_changed", "self.publisher.publish_method_changed")}
BASE_CALLS = dict(PUBLISH, **{
    "with database.create_scope()": with_scope,
    "database.scoped_session": opaque("session"),
    "asyncio.create_task": noop,
    "datetime.fromtimestamp": opaque("datetime"),
    "datetime.now": opaque("datetime"),
    "RecentRunRepository": opaque("recent_run_repo"),
    "PlotLogRepository": opaque("plot_log_repo"),
    "RecentEngineRepository": opaque("recent_engine_repo"),
})
TYPES = {"self": "FromEngine", "FromEngine._engine_data_map": "dict[str, EngineData]",
         "EngineData._run_data": "RunData | None", "msg": "RunStartedMsg", "engine_data": "EngineData | None"}
