"""Native oracle for C34: real generate_csv_string vs. a direct sample-and-hold of the plot log."""
import csv
import io


def run(entries):
    """entries: [(name, [(time, value), ...]), ...] -> (real data rows, expected data rows)"""
    import openpectus.aggregator.routers.dto as Dto
    from openpectus.aggregator import csv_generator as g
    from datetime import datetime
    pl = Dto.PlotLog(entries={n: Dto.PlotLogEntry(name=n, values=[Dto.PlotLogEntryValue(value=v, tick_time=t) for t, v in vals],
                                                  value_unit=None, value_type=Dto.ProcessValueType.FLOAT) for n, vals in entries})
    out = io.StringIO()
    w = csv.writer(out)
    g._write_header_row(w, pl)
    g._write_data_rows(w, pl, g._get_tick_times(pl))
    rows = list(csv.reader(io.StringIO(out.getvalue())))[1:]
    times = sorted({t for _n, vals in entries for t, _v in vals})
    exp = []
    for T in times:
        r = []
        for _n, vals in entries:
            best = None
            for t, v in sorted(vals):
                if t <= T:
                    best = v
            r.append("" if best is None else str(best))
        exp.append(r)
    return rows, exp


def scenario_late_start():
    rows, exp = run([("A", [(1.0, 10.0), (2.0, 11.0)]), ("B", [(2.0, 5.0)])])
    return {"violated": rows != exp, "csv_rows": rows, "expected": exp, "scenario": "tag B has its first value at t=2; the row for t=1 must leave B empty"}


def scenario_from_witness(w):
    entries = [(f"T{k}", [(float(t), float(v) if v is not None else None) for t, v in vals]) for k, vals in enumerate(w["entries"])]
    rows, exp = run(entries)
    return {"violated": rows != exp, "csv_rows": rows, "expected": exp, "entries": entries}


def small_domain():
    """every plot log with 3 tags, each with 0..2 values at times from {1,2,3} (values 0.0 / 5.0 / 7.5, so that falsy values occur):
    real export against the sample-and-hold written from the statement, cell by cell (every row has one cell per tag)"""
    import itertools
    times = (1.0, 2.0, 3.0)
    per_tag = [[]] + [[(t, v)] for t in times for v in (0.0, 5.0)] + \
        [[(t1, v1), (t2, 7.5)] for t1, t2 in itertools.combinations(times, 2) for v1 in (0.0, 5.0)]
    n = 0
    for a, b, c in itertools.product(per_tag, repeat=3):
        if not (a or b or c):
            continue
        n += 1
        entries = [("A", list(a)), ("B", list(b)), ("C", list(c))]
        rows, exp = run(entries)
        if rows != exp:
            return {"violated": True, "entries": entries, "csv_rows": rows, "expected": exp}
    return {"violated": False, "plot_logs_checked": n}


if __name__ == "__main__":
    print(scenario_late_start())
    print(small_domain())
