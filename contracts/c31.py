"""C31 — Method saves use optimistic concurrency without lost updates (aggregator.py FromFrontend.save_method)."""
import z3
from pyvc.spec import Contract
from pyvc.smt import Val, RID, IV, SVs, mk_int
from pyvc.state import SV
from pyvc.repo import Ty
from contracts.agg_common import A, BASE_CALLS, noop, opaque

PROP = "C31"
TYPES = {"self": "FromFrontend", "FromFrontend._engine_data_map": "dict[str, EngineData]", "method": "Method", "user": "Contributor",
         "EngineData.method": "Method", "Method.version": "int", "EngineData.contributors": "set[Contributor]", "engine_id": "str"}


def copy_copy(ctx, args, kwargs):
    """copy.copy(method): a fresh Method object with the same field values"""
    src = args[0]
    st = ctx.st
    r = st.new_ref()
    ci = ctx.ex.repo.resolve_class("Method", ctx.fr.module)
    st.write("$type", r, z3.IntVal(ci.cid))
    for f in ("lines", "version", "last_author"):
        st.write(f, r, st.read(f, RID(src.term)))
    return SV(Val.VRef(r), Ty("Method"))


copy_copy.modifies = []


def rpc_call(ctx, args, kwargs):
    """dispatcher.rpc_call: an await point. Other save_method coroutines may run to completion here (rely = their guarantee: the
    unit's method version only changes by an accepted save, i.e. grows); the engine's reply is an opaque message"""
    st = ctx.st
    ed_map = ctx.spec("self._engine_data_map")
    eid = ctx.local("engine_id")
    from pyvc import heapops as H
    locked = any(k.startswith("$lock:") and v > 0 for k, v in ctx.ghost.items() if isinstance(v, int))
    if locked:
        ctx.ex.assumptions.add("asyncio.Lock gives mutual exclusion: while save_method holds the per-engine lock no other save_method "
                               "body runs, and only save_method writes a unit's method (rely)")
    if not locked:
        # interference: havoc `method` / `version` of the unit's current method object
        has = H.dict_has(st, RID(ed_map.term), eid.term)
        ed = H.dict_get(st, RID(ed_map.term), eid.term)
        old_m = st.read("method", RID(ed))
        old_v = IV(st.read("version", RID(old_m)))
        new_m = st.fresh_val("method_after_await")
        st.assume(z3.And(Val.is_VRef(new_m), Val.rid(new_m) >= 0, Val.rid(new_m) < st.alloc))
        ctx.assume(Val.is_VInt(st.read("version", RID(new_m))))
        ctx.assume(IV(st.read("version", RID(new_m))) >= old_v)
        ctx.assume(z3.Implies(IV(st.read("version", RID(new_m))) == old_v, new_m == old_m))
        st.write("method", RID(ed), new_m)
        ctx.ghost["version_at_commit_candidate"] = True
    return ctx.fresh("response", None)


rpc_call.modifies = ["method"]


def lock_acquire(ctx):
    """`async with lock` may suspend before the lock is held: the same interference as at any other await"""
    rpc_call(ctx, [], {})


def lock_for(ctx, args, kwargs):
    """self._save_method_locks.setdefault(key, Lock()): THE lock of one process unit. Obligation: the key is the engine id alone, so that
    every save for that unit, whoever issues it, contends for the same lock"""
    from pyvc.smt import SVs as _S
    ok = z3.BoolVal(False)
    if args and args[0].term is not None and ctx.local("engine_id") is not None:
        ok = args[0].term == ctx.local("engine_id").term
    ctx.check("the-save-lock-is-keyed-by-the-engine-id-alone", ok, "call-site")
    return ctx.fresh("lock", None)


lock_for.modifies = []


def is_error(ctx, args, kwargs):
    return ctx.fresh("is_error", "bool")


def on_exit(ctx, kind, result):
    if kind != "return":
        return
    # accepted save: the version it was based on must still be the unit's version at the moment of the commit, and the new
    # version is exactly one more. `ghost_pre_commit_version` is recorded by the assignment hook below.
    pre = ctx.ghost.get("pre_commit_version")
    based_on = ctx.spec("old(method.version)")
    if pre is not None:
        ctx.check("accepted-save-was-based-on-the-version-current-at-commit (no lost update)", pre == IV(based_on.term), "postcondition")
        ctx.check("accepted-save-increases-the-version-by-exactly-one",
                  IV(ctx.spec("self._engine_data_map[engine_id].method.version").term) == pre + 1, "postcondition")
    ctx.check("returns-the-new-version", IV(result.term) == IV(based_on.term) + 1, "postcondition")


def pre_commit(ctx, args, kwargs):
    """self._engine_data_map.get(engine_id) just before the commit: records the unit's method version at that moment (ghost)"""
    from pyvc import heapops as H
    st = ctx.st
    ed_map = ctx.spec("self._engine_data_map")
    k = args[0].term
    has = H.dict_has(st, RID(ed_map.term), k)
    if ctx.decide(has, "engine present at commit"):
        ed = SV(H.dict_get(st, RID(ed_map.term), k), Ty("EngineData"))
        ctx.ghost["pre_commit_version"] = IV(st.read("version", RID(st.read("method", RID(ed.term)))))
        return ed
    return ctx.none()


pre_commit.modifies = []
CALLS = dict(BASE_CALLS, **{"asyncio.Lock": opaque("lock"), "self._save_method_locks.setdefault": lock_for,"copy.copy": copy_copy, "self.dispatcher.rpc_call": rpc_call, "AM.MethodMsg": opaque("msg"),
                            "self._engine_data_map.get": pre_commit, "self.publish_new_contributor_notification": noop,
                            "engine_data.contributors.add": noop})

save_method = Contract(
    target=A + "FromFrontend.save_method", types=TYPES, calls=CALLS,
    requires=["has_key(self._engine_data_map, engine_id)"],
    raises={"AggregatorCallerException": None, "AggregatorInternalException": None, "Exception": None},
    exc_ensures={"AggregatorCallerException": []},
    on_exit=on_exit,
    options={"lenient": True, "protected_prefixes": (), "on_lock_acquire": lock_acquire})
# rejected when not based on the current version: proved as `must raise`
save_method.options["raises_iff_partial"] = True

CONTRACTS = [save_method]
TARGETS = [save_method.target]
LEVEL = "other"
TRUSTED = ["interference at the await: other saves only increase the unit's method version (their guarantee)", "copy.copy is a field-for-field copy",
           "dispatcher reply / isinstance(response, ErrorMessage) opaque"]
CLAUSES = {"accepted only if based on the current version": "entry check + `no lost update` postcondition across the await (interference havoc)",
           "at most one of several saves based on the same version is accepted": "follows from `no lost update` (the second would commit on a changed version)",
           "each accepted save increases the version by exactly one": "postcondition on the committed version"}
EXPLANATION = "save_method cut at its await into atomic segments; the shared method/version is havocked at the cut under the rely of monotone versions."


def replay(obligation, witness):
    import contracts.agg_native as n
    r = n.scenario_concurrent_saves()
    return {"confirmed": r["violated"], **r}


def _nat():
    import contracts.agg_native as n
    r = n.scenario_concurrent_saves()
    return {"ok": not r["violated"], "observation": r}


NATIVE = [("native:two-concurrent-saves-on-one-version", _nat)]
REPLAY_WITHOUT_WITNESS = True
