"""Native scenarios on the REAL ErrorRecoveryDecorator with a scripted fake hardware (used as replays for C24)."""
import math


def _mk():
    from openpectus.engine.hardware import HardwareLayerBase, HardwareLayerException, Register, RegisterDirection
    from openpectus.engine.hardware_recovery import ErrorRecoveryDecorator, ErrorRecoveryConfig, ErrorRecoveryState
    from openpectus.lang.exec.tags import Tag

    class Fake(HardwareLayerBase):
        def __init__(self):
            super().__init__()
            self.mem = {}
            self.fail = []          # scripted outcomes: True = this call fails
            self.log = []
            self._is_connected = True

        def _next_fails(self):
            return self.fail.pop(0) if self.fail else False

        def read(self, r):
            return self.mem.get(r.name)

        def write(self, value, r):
            if self._next_fails():
                raise HardwareLayerException("scripted failure")
            self.mem[r.name] = value
            self.log.append((r.name, value))

        def write_batch(self, values, registers):
            if self._next_fails():
                raise HardwareLayerException("scripted failure")
            for v, r in zip(values, registers):
                self.mem[r.name] = v
                self.log.append((r.name, v))

    hw = Fake()
    dec = ErrorRecoveryDecorator(hw, ErrorRecoveryConfig(), Tag("Connection Status"))
    regs = {n: Register(n, RegisterDirection.Both) for n in ("A", "B")}
    return hw, dec, regs, ErrorRecoveryState


def _close(a, b):
    if a == b:
        return True
    num = lambda x: isinstance(x, (int, float)) and not isinstance(x, bool)
    return num(a) and num(b) and math.isclose(a, b)


def scenario_stale_pending(batch=False):
    """write v1 fails (buffered) -> write v2 succeeds -> a later successful write of another register flushes the buffer"""
    hw, dec, regs, St = _mk()
    w = (lambda v, r: dec.write_batch([v], [r])) if batch else dec.write
    hw.fail = [True]
    w(1, regs["A"])                 # fails: buffered
    w(2, regs["A"])                 # succeeds: hardware holds 2, which is the most recently commanded value
    w(5, regs["B"])                 # succeeds and flushes pending values
    commanded = {"A": 2, "B": 5}
    bad = {n: (hw.mem.get(n), c) for n, c in commanded.items() if not _close(hw.mem.get(n), c)}
    return {"violated": bool(bad) and dec.state == St.OK, "hardware_vs_commanded": bad, "hardware_write_log": hw.log,
            "state": str(dec.state), "scenario": "stale buffered value written after a newer value" + (" (batch)" if batch else "")}


def scenario_float_after_non_number(batch=False, first=None):
    """a float commanded after a non-numeric value (None) must reach the hardware"""
    hw, dec, regs, St = _mk()
    w = (lambda v, r: dec.write_batch([v], [r])) if batch else dec.write
    w(first, regs["A"])
    w(1.5, regs["A"])
    ok = _close(hw.mem.get("A"), 1.5)
    return {"violated": (not ok) and dec.state == St.OK, "hardware": hw.mem.get("A"), "commanded": 1.5, "hardware_write_log": hw.log,
            "scenario": f"float written after {first!r}" + (" (batch)" if batch else "")}


def scenario_buffered_value_of_another_register_survives(batch=False):
    """a successful write of one register must not discard the buffered value of ANOTHER register (names PU1 / PU10 share a prefix)"""
    from openpectus.engine.hardware import Register, RegisterDirection
    hw, dec, regs, St = _mk()
    r1, r10 = Register("PU1", RegisterDirection.Both), Register("PU10", RegisterDirection.Both)
    w = (lambda v, r: dec.write_batch([v], [r])) if batch else dec.write
    w(10, r1)
    w(20, r10)
    hw.fail = [True, True]
    w(0, r1)                        # outage: buffered
    w(0, r10)                       # buffered
    w(35, r10)                      # connection is back: succeeds; the buffered PU1=0 must still be flushed (now or at the next write)
    w(36, r10)
    commanded = {"PU1": 0, "PU10": 36}
    bad = {n: (hw.mem.get(n), c) for n, c in commanded.items() if not _close(hw.mem.get(n), c)}
    return {"violated": bool(bad) and dec.state == St.OK, "hardware_vs_commanded": bad, "hardware_write_log": hw.log, "state": str(dec.state),
            "scenario": "buffered value of PU1 while PU10 is written successfully" + (" (batch)" if batch else "")}


def all_scenarios():
    out = []
    for b in (False, True):
        out.append(scenario_stale_pending(b))
        out.append(scenario_float_after_non_number(b, None))
        out.append(scenario_float_after_non_number(b, "x"))
    return out


if __name__ == "__main__":
    import json
    print(json.dumps(all_scenarios(), indent=1, default=str))
