"""C25 — Composite hardware is transparent (openpectus/engine/composite_hardware.py)."""
import z3
from pyvc.spec import Contract, LoopSpec
from pyvc.smt import Val, IV, RID, mk_int
from pyvc.state import SV
from pyvc.repo import Ty
from pyvc import heapops as H

PROP = "C25"
M = "openpectus.engine.composite_hardware:Composite_Hardware."
LEVEL = "proof"

RDf = z3.Function("RD", Val, Val, Val)      # RD(layer, register): what reading that register on its own layer returns


def RD(ctx, h, r):
    return SV(RDf(h.term, r.term), None)


SPEC_FUNCS = {"RD": RD}
HW = 'options["hardware"]'


def _layer_read_batch(ctx, args, kwargs):
    """layer.read_batch(regs) returns, position by position, what layer.read(reg) returns (RD); it may raise"""
    regs = args[0]
    h = ctx.ex.ev(ctx.node.func.value, ctx.fr)      # the layer the call is made on
    n = ctx.list_len(regs)
    out = ctx.new_list(length=n, ty="list")
    j = z3.Int(ctx.st.fresh_name("rb"))
    ctx.assume(z3.ForAll([j], z3.Implies(z3.And(0 <= j, j < n),
                                         H.list_get(ctx.st, RID(out.term), j) == RDf(h.term, H.list_get(ctx.st, RID(regs.term), j)))))
    if ctx.choose(2, "layer.read_batch outcome") == 1:
        ctx.raise_("HardwareLayerException", "layer read_batch failed")
    return out


_layer_read_batch.modifies = []


def _layer_read(ctx, args, kwargs):
    """layer.read(r) returns RD(layer, r); it may raise"""
    h = ctx.ex.ev(ctx.node.func.value, ctx.fr)
    if ctx.choose(2, "layer.read outcome") == 1:
        ctx.raise_("HardwareLayerException", "layer read failed")
    return SV(RDf(h.term, args[0].term), None)


_layer_read.modifies = []

TYPES = {"self": "Composite_Hardware", "registers": "list[Register]", "values": "list", "Register._options": "dict[str, Any]"}
BOUND = 3
HAS_HW = 'all(has_key(r.options, "hardware") for r in registers)'
U = LoopSpec(unroll=BOUND)

# ---- reads ---------------------------------------------------------------------------------------------------------------
read_batch = Contract(
    target=M + "read_batch", types=TYPES, requires=[HAS_HW, f"len(registers) <= {BOUND}"],
    ensures=[("same-length", "len(result) == len(registers)"),
             ("each-value-is-the-read-on-its-own-layer",
              f"all(result[k] == RD(registers[k].{HW}, registers[k]) for k in range(len(registers)))")],
    raises={"HardwareLayerException": None}, options={"default_unroll": BOUND},
    calls={"*.read_batch": _layer_read_batch, "*.read": _layer_read},
    loops={"for r in registers": U,
           "for hardware, registers_belonging_to_hardware in registers_by_hardware.items()": U,
           "for register, read in zip(registers_belonging_to_hardware, reads)": U})

read = Contract(target=M + "read", types={"self": "Composite_Hardware", "r": "Register", "Register._options": "dict[str, Any]"},
                requires=['has_key(r.options, "hardware")'],
                ensures=[("value-is-the-read-on-its-own-layer", f"result == RD(r.{HW}, r)")],
                raises={"HardwareLayerException": None},
                calls={"*.read": _layer_read, "*.read_batch": _layer_read_batch})


# ---- writes: ghost log of what each layer was asked to write -------------------------------------------------------------
def _layer_write(ctx, args, kwargs):
    """layer.write(v, r): recorded in the ghost write log; it may raise"""
    h = ctx.ex.ev(ctx.node.func.value, ctx.fr)
    if ctx.choose(2, "layer.write outcome") == 1:
        ctx.raise_("HardwareLayerException", "layer write failed")
    ctx.ghost.setdefault("wlog", []).append(("single", h, args[0], args[1]))
    return ctx.none()


_layer_write.modifies = []


def _layer_write_batch(ctx, args, kwargs):
    """layer.write_batch(values, regs): recorded in the ghost write log; it may raise"""
    h = ctx.ex.ev(ctx.node.func.value, ctx.fr)
    if ctx.choose(2, "layer.write_batch outcome") == 1:
        ctx.raise_("HardwareLayerException", "layer write_batch failed")
    ctx.ghost.setdefault("wlog", []).append(("batch", h, args[0], args[1]))
    return ctx.none()


_layer_write_batch.modifies = []


def _write_exit(ctx, kind, result):
    if kind != "return":
        return
    log = ctx.ghost.get("wlog", [])
    r, v = ctx.local("r"), ctx.local("value")
    h = ctx.spec('r.options["hardware"]')
    ok = z3.BoolVal(len(log) == 1)
    if len(log) == 1:
        _k, lh, lv, lr = log[0]
        ok = z3.And(lh.term == h.term, lv.term == v.term, lr.term == r.term)
    ctx.check("exactly-that-value-written-on-the-registers-own-layer", ok, "postcondition")


def _write_batch_exit(ctx, kind, result):
    """Every (value, register) pair of the input reaches exactly one layer call, on the register's own layer, aligned,
    and within one layer call the registers keep their input order; nothing else is written."""
    if kind != "return":
        return
    st = ctx.st
    log = ctx.ghost.get("wlog", [])
    regs, vals = ctx.local("registers"), ctx.local("values")
    n = ctx.list_len(regs)
    hwof = lambda reg: ctx.spec('x.options["hardware"]', x=reg)
    total = z3.IntVal(0)
    hits = {k: [] for k in range(BOUND)}            # k -> list of (cond, call index, position)
    for c, (_kind, h, cv, cr) in enumerate(log):
        ln = ctx.list_len(cr)
        total = total + ln
        ctx.check(f"layer-call-{c}:values-and-registers-same-length", ctx.list_len(cv) == ln, "postcondition")
        for m in range(BOUND):
            reg_m = ctx.list_get(cr, m, Ty("Register"))
            in_call = m < ln
            # every written pair is an input pair on its own layer
            alts = []
            for k in range(BOUND):
                same = z3.And(k < n, ctx.list_get(regs, k).term == reg_m.term, ctx.list_get(vals, k).term == ctx.list_get(cv, m).term)
                alts.append(same)
                hits[k].append((z3.And(in_call, ctx.list_get(regs, k).term == reg_m.term), c, m))
            ctx.check(f"layer-call-{c}:position-{m}-is-an-input-pair-on-its-own-layer",
                      z3.Implies(in_call, z3.And(z3.Or(alts), hwof(reg_m).term == h.term)), "postcondition")
    ctx.check("number-of-written-pairs-equals-number-of-input-pairs", total == n, "postcondition")
    for k in range(BOUND):
        conds = [c for c, _c, _m in hits[k]]
        exactly_one = z3.Or(conds) if conds else z3.BoolVal(False)
        ctx.check(f"input-pair-{k}-is-written", z3.Implies(k < n, exactly_one), "postcondition")
    # order inside one layer call follows the input order
    for k1 in range(BOUND):
        for k2 in range(k1 + 1, BOUND):
            for (c1, ci1, m1) in hits[k1]:
                for (c2, ci2, m2) in hits[k2]:
                    if ci1 == ci2 and m1 > m2:
                        ctx.check(f"order-kept:{k1}<{k2}", z3.Not(z3.And(k2 < n, c1, c2)), "postcondition")


write = Contract(target=M + "write", types={"self": "Composite_Hardware", "r": "Register", "Register._options": "dict[str, Any]"},
                 requires=['has_key(r.options, "hardware")'], raises={"HardwareLayerException": None},
                 calls={"*.write": _layer_write, "*.write_batch": _layer_write_batch}, on_exit=_write_exit)

write_batch = Contract(
    target=M + "write_batch", types=TYPES,
    requires=[HAS_HW, f"len(registers) <= {BOUND}", "len(values) == len(registers)",
              "all(registers[a] is not registers[b] for a in range(len(registers)) for b in range(a))"],
    raises={"HardwareLayerException": None},
    calls={"*.write_batch": _layer_write_batch, "*.write": _layer_write}, on_exit=_write_batch_exit, options={"default_unroll": BOUND},
    loops={"for v, r in zip(values, registers)": U,
           "for hardware, registers_belonging_to_hardware in registers_by_hardware.items()": U})

CONTRACTS = [read_batch, read, write, write_batch]
TARGETS = [c.target for c in CONTRACTS]
LEVEL = "other"
BOUNDED = [f"read_batch and write_batch: every loop unrolled for batches of at most {BOUND} registers (any number of layers, any "
           f"aliasing of layers among them); read and write are loop-free and proved for all inputs"]
TRUSTED = ["layer.read_batch(regs)[i] == layer.read(regs[i]) == RD(layer, regs[i]) for the concrete layers (assumed: reads within a batch are a snapshot)",
           "layer.write / layer.write_batch of the concrete layers recorded in a ghost write log (their effect on real hardware is outside the proof)"]
EXPLANATION = ("read/write: loop-free, full-domain symbolic inputs => complete proofs. read_batch/write_batch: BOUNDED stand-in "
               f"(batches of <= {BOUND} registers, loops unrolled on the real code); the unbounded grouping invariant over "
               "dict-of-lists did not discharge within budget in z3/cvc5 and is therefore not claimed as proved.")
CLAUSES = {"batch reads deliver the same values register for register and in order": "read_batch ensures (bounded 3)",
           "batch writes deliver each value to its register on its own layer, in order": "write_batch exit obligations (bounded 3)",
           "single reads/writes go to the register's own layer": "read/write (proved, all inputs)"}
