"""C41 — Macros run their latest definition once per call and never recurse (partial).

Covered: (a) PInterpreter._register_macro: afterwards the table maps the name to the node just registered (latest definition wins);
(b) MacroNode.macro_calling_macro: a DIRECT self call among ANY of the macro's children is always found (all macro tables, all
child lists, recursion handled through the function's own contract), a non-empty result ends in the searched name;
(c) bounded native scenarios on the real parser + MacroNode: self call as second call, indirect self call through the second call,
and termination when other macros call each other."""
import z3
from pyvc.spec import Contract, LoopSpec

PROP = "C41"
A = "openpectus.lang.model.ast:"
P = "openpectus.lang.exec.pinterpreter:"
TYPES = {"self": "MacroNode", "macros": "dict[str, MacroNode]", "name": "str | None", "_visited": "set[str] | None", "visited": "set[str]",
         "NodeWithChildren.children": "list[Node]", "MacroNode.children": "list[Node]", "Node.arguments": "str", "result": "list[str]",
         "path": "list[str]"}
N = "(name if name is not None else self.name)"
DIRECT = f"any(is_instance(c, 'CallMacroNode') and c.name == {N} for c in self.children)"
mcm = Contract(
    target=A + "MacroNode.macro_calling_macro", types=TYPES, raises={}, requires=["self.children is not None"],
    ensures=[("a-direct-self-call-among-any-child-is-found", f"implies({DIRECT}, {N} in result)"),
             ("a-reported-path-ends-in-the-searched-name", f"implies(len(result) > 0, result[len(result) - 1] == {N})")],
    loops={"for child in self.children": LoopSpec(
        invariant=[f"all(not (is_instance(self.children[j], 'CallMacroNode') and self.children[j].name == {N}) for j in range(idx))",
                   "visited is not None"],
        frame={"$dhas": ["visited"], "$dval": ["visited"], "$dcnt": ["visited"], "$dord": ["visited"], "$dpos": ["visited"], "$items": [], "$len": []})},
    modifies={"$dhas": ["_visited"], "$dval": ["_visited"], "$dcnt": ["_visited"], "$dord": ["_visited"], "$dpos": ["_visited"], "$items": [], "$len": []})

reg = Contract(
    target=P + "PInterpreter._register_macro", raises={},
    types={"self": "PInterpreter", "node": "MacroNode", "PInterpreter._program": "ProgramNode", "ProgramNode.macros": "dict[str, MacroNode]",
           "Node.arguments": "str", "MacroNode.is_registered": "bool"},
    ensures=[("latest-definition-wins", "self._program.macros[node.macro_name] is node"),
             ("other-names-keep-their-definition",
              "all(implies(k != node.macro_name, has_key(self._program.macros, k) and self._program.macros[k] is old(self._program.macros[k])) for k in old(self._program.macros))"),
             ("marked-registered", "node.is_registered")])

# ---- (d) edit protection: MethodManager._validate_liveedit_method --------------------------------------------------------------
from pyvc.smt import Val, mk_bool          # noqa: E402
from pyvc.state import SV                  # noqa: E402
from pyvc.repo import Ty                   # noqa: E402
GCf = z3.Function("GET_CHILD_BY_ID", Val, Val, Val)        # new_program.get_child_by_id(id)
MSf = z3.Function("MATCHES_SOURCE", Val, Val, z3.BoolSort())  # old_macro.matches_source(new_macro)


def get_child(ctx, args, kwargs):
    """ProgramNode.get_child_by_id(id): the node with that id in the freshly parsed program, or None (tree search, assumed)"""
    prog = ctx.ex.ev(ctx.node.func.value, ctx.fr)
    out = SV(GCf(prog.term, args[0].term), Ty("Node", (), True))
    ctx.ex.assume_type(out.term, out.ty, ctx.fr)
    return out


def matches_source(ctx, args, kwargs):
    """MacroNode.matches_source(other): source-level equality of the two macro subtrees (assumed, external to this contract)"""
    old = ctx.ex.ev(ctx.node.func.value, ctx.fr)
    return SV(mk_bool(MSf(old.term, args[0].term)), Ty("bool"))


def GC(ctx, prog, i):
    return SV(GCf(prog.term, i.term), Ty("Node", (), True))


def MS(ctx, a, b):
    return SV(mk_bool(MSf(a.term, b.term)), Ty("bool"))


def parse_new(ctx, args, kwargs):
    """MethodManager._parse(method): a freshly parsed ProgramNode (parser not under this contract; it does not touch the old program)"""
    out = ctx.fresh("new_program", "ProgramNode")
    ctx.ex.assume_type(out.term, out.ty, ctx.fr)
    return out


def opaque_state(ctx, args, kwargs):
    """_get_method_state / extract_tree_state: read-only summaries of the old program"""
    out = ctx.fresh("state", "MethodState" if "method_state" in ctx.text else None)
    if out.ty is not None:
        ctx.ex.assume_type(out.term, out.ty, ctx.fr)
    return out


for _h in (get_child, matches_source, parse_new, opaque_state):
    _h.modifies = []
SPEC_FUNCS = {"GC": GC, "MS": MS}
MAC = "old_program.macros[key_at(old_program.macros, j)]"
KEPT = (f"implies({MAC}.run_started_count > 0, GC(new_program, {MAC}.id) is not None and is_instance(GC(new_program, {MAC}.id), 'MacroNode') "
        f"and MS({MAC}, GC(new_program, {MAC}.id)))")
liveedit = Contract(
    target="openpectus.engine.method_manager:MethodManager._validate_liveedit_method",
    types={"self": "MethodManager", "new_method": "ParserMethod", "MethodManager._program": "ProgramNode", "ProgramNode.macros": "dict[str, MacroNode]",
           "old_program": "ProgramNode", "new_program": "ProgramNode", "MacroNode.run_started_count": "int", "Node.id": "str",
           "old_macro_node": "MacroNode"},
    calls={"new_program.get_child_by_id": get_child, "old_macro_node.matches_source": matches_source, "self._parse": parse_new,
           "self._get_method_state": opaque_state, "old_program.extract_tree_state": opaque_state},
    options={"lenient": True, "protected_prefixes": (), "opaque_subscript": True},
    raises=None,
    ensures=[("an-accepted-edit-keeps-every-started-macro-unchanged", f"all({KEPT} for j in range(len(old_program.macros)))")],
    loops={"for old_macro_node in old_program.macros.values()": LoopSpec(invariant=[f"all({KEPT} for j in range(idx))"], frame={}),
           "for new_line in new_method.lines": LoopSpec(invariant=[], frame={})})

CONTRACTS = [mcm, reg, liveedit]
TARGETS = [c.key for c in CONTRACTS]
LEVEL = "other"


def _mk(fn):
    def run():
        import contracts.c41_native as n
        r = getattr(n, fn)()
        return {"ok": not r["violated"], "observation": r}
    return run


NATIVE = [("native:self-call-as-second-call", _mk("scenario_self_call_as_second_call")),
          ("native:cycle-among-other-macros-terminates", _mk("scenario_cycle_among_other_macros")),
          ("native:indirect-self-call-through-second-call", _mk("scenario_indirect_via_second_call")),
          ("native:live-edit-of-a-started-macro-is-rejected", _mk("scenario_edit_of_a_started_macro"))]
BOUNDED = ["indirect self calls and termination on cyclic macro tables: three native scenarios on the real parser/MacroNode (no variant for the "
           "recursion is proved: it needs a cardinality argument over the visited set that the solvers do not do)"]
TRUSTED = ["Node.name is the stripped argument text (parser guarantee)", "annotations as type invariants"]
CLAUSES = {"calling a macro runs the most recently defined body of that name": "_register_macro contract (proved); the call looks the name up in the same table (visit_CallMacroNode is a generator, not under contract)",
           "a call that would make a macro call itself fails instead of recursing": "direct self call found among all children (proved); indirect / cyclic cases by native scenarios (bounded); the raise in visit_CallMacroNode is not under contract",
           "a macro that has already started may not be edited or removed": "(d) _validate_liveedit_method: an edit is accepted only if every started macro still exists as a macro with matching source (loop invariant over all macros); get_child_by_id / matches_source assumed",
           "once per call, lines in order": "NOT covered"}
EXPLANATION = "Partial claim: registration law and the direct-self-call lemma proved on the real functions; indirect and cyclic cases by bounded native scenarios."


def replay(obligation, witness):
    import contracts.c41_native as n
    for s in n.ALL:
        r = s()
        if r["violated"]:
            return {"confirmed": True, **r}
    return {"confirmed": False}


REPLAY_WITHOUT_WITNESS = True
