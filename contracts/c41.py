"""C41 — Macros run their latest definition once per call and never recurse (partial).

Covered: (a) PInterpreter._register_macro: afterwards the table maps the name to the node just registered (latest definition wins);
(b) MacroNode.macro_calling_macro: a self call ANYWHERE in the macro's body (the calls get_macro_calls returns) is always found (all
macro tables, recursion handled through the function's own contract), a non-empty result ends in the searched name;
(b') NodeWithChildren.get_macro_calls: closure obligations P1/P2 (every direct call child, and every call in the body of a non-macro
container child, is in the result; recursion through its own contract, children loop unrolled for <= 3 children: bounded);
(c) bounded native scenarios on the real parser + MacroNode: self call as second call, indirect self call through the second call,
and termination when other macros call each other."""
import z3
from pyvc.spec import Contract, LoopSpec

PROP = "C41"
A = "openpectus.lang.model.ast:"
P = "openpectus.lang.exec.pinterpreter:"
TYPES = {"self": "MacroNode", "macros": "dict[str, MacroNode]", "name": "str | None", "_visited": "set[str] | None", "visited": "set[str]",
         "NodeWithChildren.children": "list[Node]", "MacroNode.children": "list[Node]", "Node.arguments": "str", "result": "list[str]",
         "path": "list[str]"}
N = "(name if name is not None else self.name)"
from pyvc.smt import Val, RID              # noqa: E402
from pyvc import heapops as H              # noqa: E402
INBODYf = z3.Function("IN_BODY", Val, Val, z3.BoolSort())   # IN_BODY(node, call): `call` is in node.get_macro_calls()


CALLSf = z3.Function("CALLS_LIST", Val, Val)               # the list node.get_macro_calls() returns (deterministic over the tree)


def calls_of(ctx, node_sv):
    """spec function calls_of(node): the list of calls get_macro_calls returns for that node"""
    from pyvc.repo import parse_ann
    out = SV(CALLSf(node_sv.term), parse_ann("list[CallMacroNode]"))
    st = ctx.st
    st.assume(z3.And(Val.is_VRef(out.term), RID(out.term) >= 0, RID(out.term) < (ctx.fr.entry_alloc if ctx.fr.entry_alloc is not None else st.alloc),
                     H.list_len(st, RID(out.term)) >= 0))
    return out


def _calls_list(ctx, node_sv, stash=None):
    """node.get_macro_calls(): the list L = calls_of(node) with  IN_BODY(node, x) <=> x in L  (the function is deterministic over the
    tree; what IN_BODY contains is fixed by the closure obligations proved on get_macro_calls itself)"""
    st = ctx.st
    out = calls_of(ctx, node_sv)
    n = ctx.list_len(out)
    k = z3.Int(st.fresh_name("k"))
    x = z3.Const(st.fresh_name("x"), Val)
    get = lambda i: H.list_get(st, RID(out.term), i)
    ctx.assume(z3.ForAll([k], z3.Implies(z3.And(0 <= k, k < n), INBODYf(node_sv.term, get(k))), patterns=[get(k)]))
    wit = z3.Function(st.fresh_name("pos_in_calls"), Val, z3.IntSort())
    ctx.assume(z3.ForAll([x], z3.Implies(INBODYf(node_sv.term, x), z3.And(0 <= wit(x), wit(x) < n, get(wit(x)) == x)),
                         patterns=[INBODYf(node_sv.term, x)]))
    return out


def calls_of_self(ctx, args, kwargs):
    return _calls_list(ctx, ctx.local("self"))


def calls_of_child(ctx, args, kwargs):
    return _calls_list(ctx, ctx.ex.ev(ctx.node.func.value, ctx.fr))


calls_of_self.modifies = []
calls_of_child.modifies = []
calls_of_self.__doc__ = calls_of_child.__doc__ = _calls_list.__doc__
SELFCALL = f"any(is_instance(c, 'CallMacroNode') and c.name == {N} for c in calls_of(self))"
mcm = Contract(
    target=A + "MacroNode.macro_calling_macro", types=TYPES, raises={}, requires=["self.children is not None"],
    calls={"self.get_macro_calls": calls_of_self},
    ensures=[("a-self-call-anywhere-in-the-body-is-found", f"implies({SELFCALL}, {N} in result)"),
             ("a-reported-path-ends-in-the-searched-name", f"implies(len(result) > 0, result[len(result) - 1] == {N})")],
    loops={"for child in self.get_macro_calls()": LoopSpec(
        invariant=[f"all(not (is_instance(calls_of(self)[j], 'CallMacroNode') and calls_of(self)[j].name == {N}) for j in range(idx))",
                   "visited is not None"],
        frame={"$dhas": ["visited"], "$dval": ["visited"], "$dcnt": ["visited"], "$dord": ["visited"], "$dpos": ["visited"], "$items": [], "$len": []})},
    modifies={"$dhas": ["_visited"], "$dval": ["_visited"], "$dcnt": ["_visited"], "$dord": ["_visited"], "$dpos": ["_visited"], "$items": [], "$len": []})

# ---- the body's calls: NodeWithChildren.get_macro_calls (recursion through its own contract; children loop unrolled: BOUNDED) -------------
GB = 3


def gmc_exit(ctx, kind, result):
    """closure obligations that fix what IN_BODY(self, .) must contain: (P1) every direct CallMacroNode child; (P2) everything in the
    body of a direct child that has children and is not a macro definition. By induction over the tree these give: every call nested at
    any depth (outside nested macro definitions) is in the result."""
    if kind != "return":
        return
    st = ctx.st
    n = ctx.list_len(result)
    get = lambda i: H.list_get(st, RID(result.term), i)
    for j in range(GB):
        inb = ctx.spec_bool(f"{j} < len(self._children)")
        child = ctx.spec(f"self._children[{j}]")
        is_call = ctx.spec_bool(f"is_instance(self._children[{j}], 'CallMacroNode')")
        is_cont = ctx.spec_bool(f"is_instance(self._children[{j}], 'NodeWithChildren') and not is_instance(self._children[{j}], 'MacroNode') "
                                f"and not is_instance(self._children[{j}], 'CallMacroNode')")
        k = z3.Int(st.fresh_name("k"))
        ctx.check(f"P1:direct-call-child-{j}-is-in-the-result",
                  z3.Implies(z3.And(inb, is_call), z3.Exists([k], z3.And(0 <= k, k < n, get(k) == child.term))), "postcondition")
        x = z3.Const(st.fresh_name("x"), Val)
        ctx.check(f"P2:every-call-in-the-body-of-container-child-{j}-is-in-the-result",
                  z3.Implies(z3.And(inb, is_cont, INBODYf(child.term, x)), z3.Exists([k], z3.And(0 <= k, k < n, get(k) == x))), "postcondition")


gmc = Contract(
    target=A + "NodeWithChildren.get_macro_calls", raises={},
    types={"self": "NodeWithChildren", "NodeWithChildren._children": "list[Node]", "calls": "list[CallMacroNode]", "child": "Node"},
    requires=[f"len(self._children) <= {GB}"],
    calls={"child.get_macro_calls": calls_of_child}, on_exit=gmc_exit,
    loops={"for child in self._children": LoopSpec(unroll=GB)}, options={"default_unroll": GB})

reg = Contract(
    target=P + "PInterpreter._register_macro", raises={},
    types={"self": "PInterpreter", "node": "MacroNode", "PInterpreter._program": "ProgramNode", "ProgramNode.macros": "dict[str, MacroNode]",
           "Node.arguments": "str", "MacroNode.is_registered": "bool"},
    ensures=[("latest-definition-wins", "self._program.macros[node.macro_name] is node"),
             ("other-names-keep-their-definition",
              "all(implies(k != node.macro_name, has_key(self._program.macros, k) and self._program.macros[k] is old(self._program.macros[k])) for k in old(self._program.macros))"),
             ("marked-registered", "node.is_registered")])

# ---- (d) edit protection: MethodManager._validate_liveedit_method --------------------------------------------------------------
from pyvc.smt import Val, mk_bool          # noqa: E402
from pyvc.state import SV                  # noqa: E402
from pyvc.repo import Ty                   # noqa: E402
GCf = z3.Function("GET_CHILD_BY_ID", Val, Val, Val)        # new_program.get_child_by_id(id)
MSf = z3.Function("MATCHES_SOURCE", Val, Val, z3.BoolSort())  # old_macro.matches_source(new_macro)


def get_child(ctx, args, kwargs):
    """ProgramNode.get_child_by_id(id): the node with that id in the freshly parsed program, or None (tree search, assumed)"""
    prog = ctx.ex.ev(ctx.node.func.value, ctx.fr)
    out = SV(GCf(prog.term, args[0].term), Ty("Node", (), True))
    ctx.ex.assume_type(out.term, out.ty, ctx.fr)
    return out


def matches_source(ctx, args, kwargs):
    """MacroNode.matches_source(other): source-level equality of the two macro subtrees (assumed, external to this contract)"""
    old = ctx.ex.ev(ctx.node.func.value, ctx.fr)
    return SV(mk_bool(MSf(old.term, args[0].term)), Ty("bool"))


def GC(ctx, prog, i):
    return SV(GCf(prog.term, i.term), Ty("Node", (), True))


def MS(ctx, a, b):
    return SV(mk_bool(MSf(a.term, b.term)), Ty("bool"))


def parse_new(ctx, args, kwargs):
    """MethodManager._parse(method): a freshly parsed ProgramNode (parser not under this contract; it does not touch the old program)"""
    out = ctx.fresh("new_program", "ProgramNode")
    ctx.ex.assume_type(out.term, out.ty, ctx.fr)
    return out


def opaque_state(ctx, args, kwargs):
    """_get_method_state / extract_tree_state: read-only summaries of the old program"""
    out = ctx.fresh("state", "MethodState" if "method_state" in ctx.text else None)
    if out.ty is not None:
        ctx.ex.assume_type(out.term, out.ty, ctx.fr)
    return out


for _h in (get_child, matches_source, parse_new, opaque_state):
    _h.modifies = []
SPEC_FUNCS = {"GC": GC, "MS": MS, "calls_of": calls_of}
MAC = "old_program.macros[key_at(old_program.macros, j)]"
KEPT = (f"implies({MAC}.run_started_count > 0, GC(new_program, {MAC}.id) is not None and is_instance(GC(new_program, {MAC}.id), 'MacroNode') "
        f"and MS({MAC}, GC(new_program, {MAC}.id)))")
liveedit = Contract(
    target="openpectus.engine.method_manager:MethodManager._validate_liveedit_method",
    types={"self": "MethodManager", "new_method": "ParserMethod", "MethodManager._program": "ProgramNode", "ProgramNode.macros": "dict[str, MacroNode]",
           "old_program": "ProgramNode", "new_program": "ProgramNode", "MacroNode.run_started_count": "int", "Node.id": "str",
           "old_macro_node": "MacroNode"},
    calls={"new_program.get_child_by_id": get_child, "old_macro_node.matches_source": matches_source, "self._parse": parse_new,
           "self._get_method_state": opaque_state, "old_program.extract_tree_state": opaque_state},
    options={"lenient": True, "protected_prefixes": (), "opaque_subscript": True},
    raises=None,
    ensures=[("an-accepted-edit-keeps-every-started-macro-unchanged", f"all({KEPT} for j in range(len(old_program.macros)))")],
    loops={"for old_macro_node in old_program.macros.values()": LoopSpec(invariant=[f"all({KEPT} for j in range(idx))"], frame={}),
           "for new_line in new_method.lines": LoopSpec(invariant=[], frame={})})

CONTRACTS = [mcm, gmc, reg, liveedit]
TARGETS = [c.key for c in CONTRACTS]
LEVEL = "other"


def _mk(fn):
    def run():
        import contracts.c41_native as n
        r = getattr(n, fn)()
        return {"ok": not r["violated"], "observation": r}
    return run


NATIVE = [("native:self-call-nested-in-block-watch-alarm", _mk("scenario_self_call_nested_in_block_watch_alarm")),
          ("native:self-call-as-second-call", _mk("scenario_self_call_as_second_call")),
          ("native:cycle-among-other-macros-terminates", _mk("scenario_cycle_among_other_macros")),
          ("native:indirect-self-call-through-second-call", _mk("scenario_indirect_via_second_call")),
          ("native:live-edit-of-a-started-macro-is-rejected", _mk("scenario_edit_of_a_started_macro"))]
BOUNDED = [f"get_macro_calls: the loop over the children is unrolled for at most {GB} children (nesting depth unbounded through the function's own contract)",
           "indirect self calls and termination on cyclic macro tables: three native scenarios on the real parser/MacroNode (no variant for the "
           "recursion is proved: it needs a cardinality argument over the visited set that the solvers do not do)"]
TRUSTED = ["Node.name is the stripped argument text (parser guarantee)", "annotations as type invariants"]
CLAUSES = {"calling a macro runs the most recently defined body of that name": "_register_macro contract (proved); the call looks the name up in the same table (visit_CallMacroNode is a generator, not under contract)",
           "a call that would make a macro call itself fails instead of recursing": "self call anywhere in the body found (macro_calling_macro proved against the list get_macro_calls returns; get_macro_calls closure obligations bounded to 3 children per node, any depth); indirect / cyclic cases by native scenarios (bounded); the raise in visit_CallMacroNode is not under contract",
           "a macro that has already started may not be edited or removed": "(d) _validate_liveedit_method: an edit is accepted only if every started macro still exists as a macro with matching source (loop invariant over all macros); get_child_by_id / matches_source assumed",
           "once per call, lines in order": "NOT covered"}
EXPLANATION = "Partial claim: registration law and the direct-self-call lemma proved on the real functions; indirect and cyclic cases by bounded native scenarios."


def replay(obligation, witness):
    import contracts.c41_native as n
    for s in n.ALL:
        r = s()
        if r["violated"]:
            return {"confirmed": True, **r}
    return {"confirmed": False}


REPLAY_WITHOUT_WITNESS = True
