"""C11 — Command exclusivity and init/finalize pairing (partial: pairing on one tick of one UOD command request).

Contract on the real CommandManager._execute_uod_command with the command's life-cycle flags as ghost state (initialized / execution
started / complete / cancelled / finalized — the real flag methods are simple getters and setters of ContextEngineCommand, replaced here by
a ghost model so that call-site obligations can be stated):
  * initialize() is called only on a command that is not yet initialized (once);
  * execute() is called only on an initialized command that is neither cancelled nor complete;
  * finalize() is called only on a command that is not yet finalized (exactly once), whether it completes, fails or was cancelled;
  * a tick that ends with the request retired leaves the command finalized.
The two scans that cancel identical / overlapping commands (the exclusivity clause) are under the assumed loop contract of C10."""
import z3
from pyvc.spec import Contract, LoopSpec
from pyvc.smt import mk_bool, BV
from pyvc.state import SV
from pyvc.repo import Ty
import contracts.c10 as c10

PROP = "C11"
LEVEL = "other"
FLAGS = ("initialized", "started", "complete", "cancelled", "finalized")


def _flag(ctx, name):
    g = ctx.ghost
    if "life" not in g:
        g["life"] = {f: z3.Bool(ctx.st.fresh_name("life_" + f)) for f in FLAGS}
        L = g["life"]
        # well-formed life cycle at entry: started => initialized, complete => started, finalized => nothing more to do
        # ... and a command that is still in the instance table has not been finalized (finalize disposes it, proved in C10)
        ctx.assume(z3.And(z3.Implies(L["started"], L["initialized"]), z3.Implies(L["complete"], L["started"]), z3.Not(L["finalized"])))
    return g["life"][name]


def decide(ctx, label, f, kind="call-site"):
    """life-cycle obligations speak only about the ghost flags and the branch decisions taken on them: decided by the quantifier-free
    part of the path condition (the heap axioms are irrelevant and only slow the full pipeline down)"""
    st = ctx.st
    # only the path facts that speak about the ghost flags alone (entry well-formedness and the branch decisions on the getters)
    def only_flags(e, seen=None):
        seen = seen if seen is not None else set()
        todo = [e]
        while todo:
            x = todo.pop()
            if x.get_id() in seen:
                continue
            seen.add(x.get_id())
            if z3.is_quantifier(x):
                return False
            if z3.is_const(x) and x.decl().kind() == z3.Z3_OP_UNINTERPRETED and not x.decl().name().startswith("life_"):
                return False
            if z3.is_app(x) and x.num_args() > 0 and x.decl().kind() == z3.Z3_OP_UNINTERPRETED:
                return False
            todo.extend(x.children())
        return True
    mini = z3.Solver()
    for a in st.pc:
        if z3.is_expr(a) and only_flags(a):
            mini.add(a)
    r = mini.check(z3.Not(f))
    if r == z3.unsat:
        return ctx.check_w(label, z3.BoolVal(True), lambda m: {}, kind)
    if r == z3.sat:
        m = mini.model()
        flags = {k: str(m.eval(v, model_completion=True)) for k, v in ctx.ghost.get("life", {}).items()}
        return ctx.check_w(label, z3.BoolVal(False), lambda _m: {"life_cycle_flags_at_the_call": flags}, kind)
    return ctx.check_w(label, f, lambda m: {}, kind)


def getter(name):
    def h(ctx, args, kwargs):
        return SV(mk_bool(_flag(ctx, name)), Ty("bool"))
    h.modifies = []
    h.__doc__ = f"command.is_{name}(): the ghost life-cycle flag `{name}`"
    return h


def initialize(ctx, args, kwargs):
    """UodCommand.initialize(): user init callback (may raise); sets `initialized`"""
    decide(ctx, "initialize-only-once", z3.Not(_flag(ctx, "initialized")))
    if ctx.choose(2, "init callback outcome") == 1:
        ctx.raise_("Exception", "init callback raised")
    ctx.ghost["life"]["initialized"] = z3.BoolVal(True)
    return ctx.none()


def execute(ctx, args, kwargs):
    """UodCommand.execute(args): user exec callback (may raise, may complete the command); sets `started`"""
    L = lambda n: _flag(ctx, n)
    decide(ctx, "execute-only-after-initialize-and-while-running", z3.And(L("initialized"), z3.Not(L("cancelled")), z3.Not(L("complete")), z3.Not(L("finalized"))))
    if ctx.choose(2, "exec callback outcome") == 1:
        ctx.raise_("Exception", "exec callback raised")
    ctx.ghost["life"]["started"] = z3.BoolVal(True)
    ctx.ghost["life"]["complete"] = z3.Bool(ctx.st.fresh_name("life_complete"))     # the callback may call set_complete()
    return ctx.none()


def finalize_call(ctx, args, kwargs):
    """CommandManager._finalize_command(request, cmd): finalizes the command and retires the request (contract in C10)"""
    decide(ctx, "finalize-exactly-once", z3.Not(_flag(ctx, "finalized")))
    ctx.ghost["life"]["finalized"] = z3.BoolVal(True)
    ctx.ghost["retired"] = True
    return ctx.none()


def cancel_call(ctx, args, kwargs):
    """CommandManager._cancel_command(request, ...): cancel() unless complete, then _finalize_command (finalize=True by default)"""
    L = lambda n: _flag(ctx, n)
    ctx.ghost["life"]["cancelled"] = z3.Or(L("cancelled"), z3.Not(L("complete")))
    return finalize_call(ctx, args, kwargs)


def done_call(ctx, args, kwargs):
    """CommandManager._executing_command_done(request): the request is retired"""
    ctx.ghost["retired"] = True
    return ctx.none()


for _h in (initialize, execute, finalize_call, cancel_call, done_call):
    _h.modifies = []
CALLS = dict(c10.CALLS, **{"uod_command.is_initialized": getter("initialized"), "uod_command.is_execution_started": getter("started"),
                           "uod_command.is_execution_complete": getter("complete"), "uod_command.is_cancelled": getter("cancelled"),
                           "uod_command.is_finalized": getter("finalized"), "uod_command.initialize": initialize, "uod_command.execute": execute,
                           "self._finalize_command": finalize_call, "self._cancel_command": cancel_call, "self._executing_command_done": done_call})


def on_exit(ctx, kind, result):
    if "life" not in ctx.ghost:
        return
    if ctx.ghost.get("retired"):
        decide(ctx, "a-retired-request-leaves-its-command-finalized-or-never-created", z3.Or(_flag(ctx, "finalized"), z3.BoolVal(ctx.ghost.get("disposed", False))),
               "postcondition")


def dispose(ctx, args, kwargs):
    """uod.dispose_command(cmd): the never-initialized instance of a request with rejected arguments is released"""
    ctx.ghost["disposed"] = True
    return ctx.none()


dispose.modifies = []
CALLS["self.uod.dispose_command"] = dispose
pairing = Contract(
    target=c10.CM + "_execute_uod_command", types=c10.TYPES, calls=CALLS, options=c10.OPTS, raises=None, on_exit=on_exit,
    requires=[c10.REP, "cmd_request.name.strip() != ''", f"cmd_request not in {c10.DONE}", "all(r.name.strip() != '' for r in self.cmd_executing)"],
    loops={"for c in self.currently_executing": LoopSpec(invariant=c10.LOOP_INV, assumed=True),
           "for c in self.currently_executing#1": LoopSpec(invariant=c10.LOOP_INV, assumed=True),
           "for overlap_list in self.uod.overlapping_command_names_lists": LoopSpec(invariant=c10.LOOP_INV, assumed=True)})


# ---- exclusivity scans (BOUNDED stand-in): both scans unrolled on the real code for at most XB executing requests and XB overlap lists ----
XB = 2


def cancel_logged(ctx, args, kwargs):
    """self._cancel_command(c): recorded in the ghost list of cancelled requests; retires c (postcondition of _cancel_command, C10)"""
    ctx.ghost.setdefault("xcancelled", []).append(args[0])
    st = ctx.st
    done = ctx.spec("self.cmd_executing_done")
    from pyvc import heapops as H
    H.dict_set(st, ctx.rid(done), args[0].term, args[0].term)
    return ctx.none()


cancel_logged.modifies = ["$dhas", "$dval", "$dcnt", "$dord", "$dpos"]


class _ScansDone(Exception):
    pass


def after_scans(ctx, args, kwargs):
    """first statement after the two scans (self.uod.has_command_instance): every request that was executing at entry and conflicts with
    the requested command (same name, or named together with it in ANY declared overlap list) has been cancelled"""
    log = ctx.ghost.get("xcancelled", [])
    for j in range(XB):
        r = ctx.spec(f"old(self.cmd_executing)[{j}]")
        active = ctx.spec_bool(f"{j} < old(len(self.cmd_executing)) and old(self.cmd_executing)[{j}] not in old(self.cmd_executing_done)")
        same = ctx.spec_bool(f"old(self.cmd_executing)[{j}].name == cmd_request.name")
        overl = ctx.spec_bool(f"any(old(self.cmd_executing)[{j}].name in L and cmd_request.name in L for L in self.uod.overlapping_command_names_lists)")
        other = r.term != ctx.local("cmd_request").term
        was_cancelled = z3.Or([e.term == r.term for e in log]) if log else z3.BoolVal(False)
        ctx.check(f"executing-request-{j}-with-the-same-name-is-cancelled-first", z3.Implies(z3.And(active, other, same), was_cancelled), "call-site")
        ctx.check(f"executing-request-{j}-overlapping-in-any-declared-list-is-cancelled-first",
                  z3.Implies(z3.And(active, other, overl), was_cancelled), "call-site")
        ctx.check(f"executing-request-{j}-without-conflict-is-left-running",
                  z3.Implies(z3.And(active, z3.Not(z3.And(other, z3.Or(same, overl)))), z3.Not(was_cancelled)), "call-site")
    ctx.check("the-requested-command-itself-is-never-cancelled-by-the-scans",
              z3.And([e.term != ctx.local("cmd_request").term for e in log]) if log else z3.BoolVal(True), "call-site")
    from pyvc.state import PathEnd
    raise PathEnd("exclusivity scans checked; the rest of the body belongs to the pairing contract")


after_scans.modifies = []
UX = LoopSpec(unroll=XB)


def _exclusive(nreq, nlists):
    return Contract(
        target=c10.CM + "_execute_uod_command", variant=f"exclusivity-scans-bounded-{nreq}req-{nlists}lists", types=c10.TYPES,
        calls=dict(c10.CALLS, **{"self._cancel_command": cancel_logged, "self.uod.has_command_instance": after_scans}),
        options=dict(c10.OPTS, default_unroll=XB), raises=None,
        requires=[f"len(self.cmd_executing) <= {nreq}", f"len(self.uod.overlapping_command_names_lists) <= {nlists}",
                  "all(self.cmd_executing[a] is not self.cmd_executing[b] for a in range(len(self.cmd_executing)) for b in range(a))"],
        loops={"for c in self.currently_executing": UX, "for c in self.currently_executing#1": UX,
               "for overlap_list in self.uod.overlapping_command_names_lists": UX})


EXCL = [_exclusive(2, 1), _exclusive(1, 2)]
CONTRACTS = [pairing] + EXCL
TARGETS = [c.key for c in CONTRACTS]
TRUSTED = ["ASSUMED (not proved): the two scans that cancel identical / overlapping commands (the exclusivity clause itself) behave as stated in C10",
           "the command's flag methods are the plain getters/setters of EngineCommand (read); life cycle well-formed at entry (started => initialized, complete => started)",
           "a freshly created command has all flags False (EngineCommand.__init__) — the ghost flags are arbitrary but well-formed, which includes that case"]
CLAUSES = {"no two instances of the same / overlapping UOD commands execute; requesting one cancels the older": "BOUNDED: call-site obligations after the two scans, unrolled for (<= 2 executing requests, <= 1 overlap list) and (<= 1 executing request, <= 2 overlap lists); `execute at no tick` itself follows only together with C10 (a cancelled request is retired and its instance released)",
           "every instance is initialized once before its first execution and finalized exactly once, whether it completes, fails, is cancelled or the run stops": "call-site obligations on one tick of one request, all paths incl. raising callbacks; across ticks by the flags being the command's own state; `run stops` via C10"}
EXPLANATION = "Partial claim: life-cycle call-site obligations on CommandManager._execute_uod_command with ghost flags."


def replay(obligation, witness):
    import contracts.c11_native as n
    r = n.lifecycle_pairing()
    return {"confirmed": bool(r["violated"]), **r}


REPLAY_WITHOUT_WITNESS = True


def _nat():
    import contracts.c11_native as n
    r = n.lifecycle_pairing()
    return {"ok": not r["violated"], "observation": r}


NATIVE = [("native:init-exec-finalize-pairing-on-the-real-engine", _nat)]
BOUNDED = [f"exclusivity scans of _execute_uod_command: both loops unrolled on the real code in two configurations: at most 2 executing requests with at most 1 overlap list, and at most 1 executing request with at most 2 overlap lists (lists of any length)",
           "four native scenarios with counting callbacks on the real engine (completing, overlapping, re-requested, failing command; Stop): bounded, not counted"]
