"""Native scenario for C09: a pause snapshot of run 1 must never be applied in run 2 (real engine, repo test uod)."""
import time


def scenario_stale_snapshot_across_runs():
    from openpectus.test.engine.test_engine import create_engine
    e = create_engine()

    def tick(n=1):
        for _ in range(n):
            e.tick(time.time(), 0.1)
    try:
        e.schedule_execution("Start"); tick(2)
        danger = e.uod.tags["Danger"]
        danger.set_value(True, e._tick_time)                    # run 1: output is True when the run is paused
        e.schedule_execution("Pause"); tick(2)                 # snapshot {Danger: True}, output goes to its safe value False
        e.schedule_execution("Stop"); tick(3)                  # run 1 ends while paused
        e.schedule_execution("Start"); tick(2)                 # run 2
        danger.set_value(False, e._tick_time)                   # run 2 commands False and is never paused by a Pause command
        e.set_error_state(Exception("method error"))            # run 2 gets paused by an error (no snapshot is taken)
        tick(1)
        e.schedule_execution("Unpause"); tick(2)
        after = danger.get_value()
        return {"violated": after is True, "Danger_after_unpause_in_run2": after, "prev_state_after_run1_stop": "kept" if after else "cleared",
                "scenario": "run1: Danger=True, Pause, Stop; run2: Danger=False, error-pause, Unpause"}
    finally:
        try:
            e.cleanup()
        except Exception:
            pass


if __name__ == "__main__":
    print(scenario_stale_snapshot_across_runs())


def scenario_output_already_safe_before_the_pause():
    """an output whose pre-pause value EQUALS its safe value and that is changed while paused must be restored by Unpause"""
    from openpectus.test.engine.test_engine import create_engine
    e = create_engine()

    def tick(n=1):
        for _ in range(n):
            e.tick(time.time(), 0.1)
    try:
        e.schedule_execution("Start"); tick(2)
        danger = e.uod.tags["Danger"]
        reg = [r for r in e.uod.hwl.registers.values() if r.name == "Danger"][0]
        safe = reg._options["safe_value"]
        danger.set_value(safe, e._tick_time)                    # the output already holds its safe value before the pause
        e.schedule_execution("Pause"); tick(2)
        danger.set_value(not safe, e._tick_time)                # changed while paused (a user command does this)
        tick(1)
        e.schedule_execution("Unpause"); tick(2)
        after = danger.get_value()
        return {"violated": after != safe, "Danger_before_pause": safe, "changed_during_pause_to": (not safe), "Danger_after_unpause": after,
                "scenario": "output equal to its safe value before Pause, changed during the pause, Unpause must restore the pre-pause value"}
    finally:
        try:
            e.cleanup()
        except Exception:
            pass
