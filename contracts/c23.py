"""C23 — Hardware connection recovery follows the documented protocol (openpectus/engine/hardware_recovery.py)."""
from pyvc.spec import Contract, LoopSpec
from contracts.recovery_common import M, S, ST, TYPES, CALLS, INV

PROP = "C23"
LEVEL = "proof"
D, OK, ISSUE, RECON, ERR = (ST(n) for n in ("Disconnected", "OK", "Issue", "Reconnect", "Error"))
DICT = lambda e: {"$dhas": [e], "$dval": [e], "$dcnt": [e], "$dord": [e], "$dpos": [e]}


def merge(*ds):
    out = {}
    for d in ds:
        for k, v in d.items():
            out[k] = out.get(k, []) + v
    return out


STATUS_FRAME = {"state": ["self"], "value": ["self.connection_status_tag"], "_is_connected": ["self.decorated"],
                "last_state_reconnect_time": ["self"]}
DOWN = f"(old(self.state) in [{D}, {ERR}])"
READABLE = "RegisterDirection.Read in r.direction"
WRITABLE = "RegisterDirection.Write in r.direction"
ALL_READABLE = "all(RegisterDirection.Read in x.direction for x in registers)"
ALL_WRITABLE = "all(RegisterDirection.Write in x.direction for x in registers)"

# documented transition relation (docs/src/Error Recovery.rst): allowed (old state -> new state) per kind of event
T_ERROR_EVENT = (f"(old(self.state) == {OK} and self.state == {ISSUE}) or "
                 f"(old(self.state) == {ISSUE} and (self.state == {ISSUE} or self.state == {RECON})) or "
                 f"(old(self.state) == {RECON} and (self.state == {RECON} or self.state == {ERR})) or "
                 f"(old(self.state) in [{D}, {ERR}] and self.state == old(self.state))")
T_SUCCESS_EVENT = (f"(old(self.state) == {ISSUE} and self.state == {OK}) or "
                   f"(old(self.state) != {ISSUE} and self.state == old(self.state))")
T_IO = (f"(old(self.state) == {OK} and self.state in [{OK}, {ISSUE}]) or "
        f"(old(self.state) == {ISSUE} and self.state in [{OK}, {ISSUE}, {RECON}]) or "
        f"(old(self.state) == {RECON} and self.state in [{RECON}, {ERR}])")

success_read = Contract(
    target=M + "success_read", types=TYPES, requires=INV, calls=CALLS,
    ensures=INV + [("transition", T_SUCCESS_EVENT)], raises={},
    modifies=merge(STATUS_FRAME, {"last_success_read_write": ["self"]}))

success_write = Contract(
    target=M + "success_write", types=TYPES, requires=INV + ["len(values) == len(registers)"], calls=CALLS,
    ensures=INV + [("transition", T_SUCCESS_EVENT)], raises={},
    loops={"for value, register in zip(values, registers, strict=True)": LoopSpec(
        invariant=[], frame=DICT("self.last_success_writes"))},
    modifies=merge(STATUS_FRAME, {"last_success_read_write": ["self"]}, DICT("self.last_success_writes")))

error_read_write = Contract(
    target=M + "error_read_write", types=TYPES, requires=INV, calls=CALLS, raises={},
    ensures=INV + [
        ("transition", T_ERROR_EVENT),
        ("issue-to-reconnect-only-after-reconnect-timeout",
         f"implies(old(self.state) == {ISSUE} and self.state == {RECON}, "
         f"old(self.last_success_read_write) + self.config.reconnect_timeout_seconds < ghost('now'))"),
        ("issue-stays-only-within-reconnect-timeout",
         f"implies(old(self.state) == {ISSUE} and self.state == {ISSUE}, "
         f"not (old(self.last_success_read_write) + self.config.reconnect_timeout_seconds < ghost('now')))"),
        ("reconnect-to-error-exactly-after-error-timeout",
         f"implies(old(self.state) == {RECON}, (self.state == {ERR}) == "
         f"(old(self.last_state_reconnect_time) + self.config.error_timeout_seconds < ghost('now')))"),
    ],
    modifies=merge(STATUS_FRAME, DICT("self.last_success_writes")))

get_lkg = Contract(
    target=M + "_get_last_known_good_values", types=TYPES, requires=[], raises={},
    ensures=[("same-length", "len(result) == len(registers)"),
             ("each-is-last-known-good-or-None",
              "all(result[k] == (self.last_known_good_reads[registers[k].name] if has_key(self.last_known_good_reads, registers[k].name) else None)"
              " for k in range(len(registers)))")],
    loops={"for r in registers": LoopSpec(
        invariant=["len(values) == idx", "fresh(values)",
                   "all(values[k] == (self.last_known_good_reads[registers[k].name] if has_key(self.last_known_good_reads, registers[k].name) else None)"
                   " for k in range(idx))"],
        frame={"$items": ["values"], "$len": ["values"]})},
    modifies={})

is_backoff = Contract(target=M + "_is_backoff_tick", types=dict(TYPES, tick="int"), inline=True)

tick = Contract(
    target=M + "tick", types=TYPES, requires=INV + ["len(self.reconnect_backoff_ticks) > 0",
                                                    "all(self.reconnect_backoff_ticks[k] > 0 for k in range(len(self.reconnect_backoff_ticks)))"],
    calls=CALLS, raises={},
    ensures=INV + [
        ("transition", f"self.state == old(self.state) or (old(self.state) in [{RECON}, {ERR}] and self.state == {OK})"),
        ("only-reconnecting-states-reconnect", f"implies(old(self.state) in [{D}, {OK}, {ISSUE}], self.state == old(self.state) and self.reconnect_tick == old(self.reconnect_tick))"),
    ],
    loops={})

read = Contract(
    target=M + "read", types=TYPES, requires=INV + [READABLE], calls=CALLS,
    raises={"HardwareLayerException": DOWN}, options={"raises_iff": {"HardwareLayerException": f"self.state in [{D}, {ERR}]"}},
    exc_ensures={"*": INV + [("state-unchanged", "self.state == old(self.state)")]},
    ensures=INV + [
        ("transition", T_IO),
        ("reconnect-state-read-is-masked",
         f"implies(old(self.state) == {RECON}, result == (old(self.last_known_good_reads[r.name]) if "
         f"old(has_key(self.last_known_good_reads, r.name)) else None))"),
        ("result-is-the-last-successfully-read-value",
         "result == (self.last_known_good_reads[r.name] if has_key(self.last_known_good_reads, r.name) else None)"),
        ("only-a-successful-hardware-read-updates-last-known-good",
         "implies(not ghost_read_succeeded(), (self.last_known_good_reads[r.name] if has_key(self.last_known_good_reads, r.name) else None) == "
         "old(self.last_known_good_reads[r.name] if has_key(self.last_known_good_reads, r.name) else None))"),
        ("a-successful-hardware-read-is-returned", "implies(ghost_read_succeeded(), result == ghost('last_dec_read'))"),
    ])

read_batch = Contract(
    target=M + "read_batch", types=TYPES, requires=INV + [ALL_READABLE], calls=CALLS,
    raises={"HardwareLayerException": DOWN}, options={"raises_iff": {"HardwareLayerException": f"self.state in [{D}, {ERR}]"}},
    exc_ensures={"*": INV + [("state-unchanged", "self.state == old(self.state)")]},
    ensures=INV + [
        ("transition", T_IO),
        ("same-length", "len(result) == len(registers)"),
        ("masked-or-failed-read-returns-last-known-good",
         "implies(not ghost_read_succeeded(), all(result[k] == (old(self.last_known_good_reads[registers[k].name]) if "
         "old(has_key(self.last_known_good_reads, registers[k].name)) else None) for k in range(len(registers))))"),
        ("a-successful-hardware-read-is-returned", "implies(ghost_read_succeeded(), result is ghost('last_dec_read_batch'))"),
    ],
    loops={"for r in registers": LoopSpec(invariant=[], frame={}),
           "for value, r in zip(values, registers)": LoopSpec(
               invariant=["all(self.last_known_good_reads[registers[k].name] == values[k] or "
                          "any(registers[j].name == registers[k].name for j in range(k + 1, idx)) for k in range(idx))"],
               frame=DICT("self.last_known_good_reads"))})

write = Contract(
    target=M + "write", types=TYPES, requires=INV + [WRITABLE], calls=CALLS,
    raises={"HardwareLayerException": DOWN}, options={"raises_iff": {"HardwareLayerException": f"self.state in [{D}, {ERR}]"}},
    exc_ensures={"*": INV + [("state-unchanged", "self.state == old(self.state)")]},
    ensures=INV + [("transition", T_IO)])

write_batch = Contract(
    target=M + "write_batch", types=TYPES, requires=INV + [ALL_WRITABLE, "len(values) == len(registers)"], calls=CALLS,
    raises={"HardwareLayerException": DOWN}, options={"raises_iff": {"HardwareLayerException": f"self.state in [{D}, {ERR}]"}},
    exc_ensures={"*": INV + [("state-unchanged", "self.state == old(self.state)")]},
    ensures=INV + [("transition", T_IO)],
    loops={"for r in registers": LoopSpec(invariant=[], frame={}),
           "for r in registers#1": LoopSpec(invariant=[], frame=DICT("self.pending_writes")),
           "for value, r in zip(values, registers)": LoopSpec(invariant=[], frame=DICT("self.pending_writes")),
           "for value, r in zip(values, registers)#1": LoopSpec(invariant=[], frame=DICT("self.pending_writes"))})

R0, R1 = "typed(result[0], 'list')", "typed(result[1], 'list[Register]')"
filter_write_values = Contract(
    target=M + "filter_write_values", types=TYPES, requires=["len(values) == len(registers)"], raises={}, modifies={},
    ensures=[("is-a-pair", "len(result) == 2"), ("same-length", f"len({R0}) == len({R1})"),
             ("fresh", f"fresh({R0}) and fresh({R1}) and {R0} is not {R1}"),
             ("not-longer", f"len({R1}) <= len(registers)")],
    loops={"for value, register in zip(values, registers)": LoopSpec(
        invariant=["len(out_values) == len(out_registers)", "fresh(out_values) and fresh(out_registers) and out_values is not out_registers",
                   "len(out_registers) <= idx"],
        frame={"$items": ["out_values", "out_registers"], "$len": ["out_values", "out_registers"]})})

write_pending = Contract(
    target=M + "_write_pending_values", types=TYPES, requires=INV, calls=CALLS, raises={},
    ensures=INV + [("state-unchanged", "self.state == old(self.state)")],
    loops={"for register, value in pending_items": LoopSpec(
        invariant=["all(has_key(self.pending_writes, typed(pending_items[j], 'tuple[Register, Any]')[0]) for j in range(idx, len(pending_items)))",
                   "all(typed(pending_items[a], 'tuple[Register, Any]')[0] is not typed(pending_items[b], 'tuple[Register, Any]')[0] "
                   "for a in range(len(pending_items)) for b in range(a))"],
        frame=DICT("self.pending_writes"))},
    modifies=DICT("self.pending_writes"))

connect = Contract(
    target=M + "connect", types=TYPES, requires=INV, calls=CALLS, raises={"HardwareLayerException": None},
    exc_ensures={"*": INV + [("state-unchanged", "self.state == old(self.state)")]},
    ensures=INV + [("transition", f"(old(self.state) == {D} and self.state == {OK}) or (old(self.state) != {D} and self.state == old(self.state))")])


def ghost_read_succeeded(ctx):
    from pyvc.state import SV
    from pyvc.smt import mk_bool
    from pyvc.repo import Ty
    calls = ctx.ghost.get("decorated_calls", [])
    ok = any(ok for what, ok in calls if what in ("decorated.read", "decorated.read_batch"))
    return SV(mk_bool(ok), Ty("bool"))


SPEC_FUNCS = {"ghost_read_succeeded": ghost_read_succeeded}
CONTRACTS = [filter_write_values, success_read, success_write, error_read_write, get_lkg, is_backoff, tick, read, read_batch, write, write_batch,
             write_pending, connect]
TARGETS = [c.target for c in CONTRACTS if not c.inline]
TRUSTED = ["decorated hardware: read/read_batch/write/write_batch/connect return or raise HardwareLayerException; disconnect returns or raises Exception",
           "engine-supplied recovery callbacks do not raise", "Tag.set_value(v, t) stores v as the Connection Status value",
           "time.time() non-decreasing real"]
CLAUSES = {"five-state protocol": "transition postconditions T_* on every public method (all states, all outcomes, all times)",
           "Connection Status == Disconnected exactly in Disconnected/Error": "class invariant status-tag-matches-state (assumed at entry, proved at every normal and exceptional exit)",
           "never raise in Issue/Reconnect, raise in Error/Disconnected": "raises / raises_iff on read, read_batch, write, write_batch",
           "masked reads return the last value successfully read": "read / read_batch postconditions + _get_last_known_good_values contract"}
EXPLANATION = ("Representation invariant + per-method transition postconditions on the real ErrorRecoveryDecorator methods; "
               "induction over any sequence of operations is the class-invariant rule.")
