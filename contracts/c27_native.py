"""Native scenario for C27 (bounded stand-in): the real EngineRunner._post_async / _buffer_message / _send_buffered_batch and the real
EngineDispatcher.assign_sequence_number, driven through one outage: two messages produced while disconnected, a catch-up in which the
second delivery attempt fails, a second catch-up. `_set_state` is reduced to its effect on the state (task management is not part of
this scenario)."""
import asyncio


def outage_and_catch_up():
    import logging
    logging.disable(logging.CRITICAL)
    from openpectus.engine.engine_runner import EngineRunner
    from openpectus.protocol.engine_dispatcher import EngineDispatcher
    from openpectus.protocol.exceptions import ProtocolNetworkException
    import openpectus.protocol.engine_messages as EM
    import openpectus.protocol.messages as M

    class Disp:
        def __init__(self):
            self._sequence_number = 1
            self._engine_id = "E"
            self.delivered, self.attempts, self.fail_on = [], [], set()

        def assign_sequence_number(self, message):
            return EngineDispatcher.assign_sequence_number(self, message)

        async def send_async(self, message):
            self.assign_sequence_number(message)
            self.attempts.append(message)
            await asyncio.sleep(0)
            if id(message) in self.fail_on:
                self.fail_on.discard(id(message))
                raise ProtocolNetworkException("down")
            self.delivered.append(message)
            return M.SuccessMessage()

    class Builder:
        def create_method_msg(self):
            return EM.MethodMsg(method=__import__("openpectus.protocol.models", fromlist=["Method"]).Method.empty())

    async def body():
        disp = Disp()
        r = object.__new__(EngineRunner)
        r._dispatcher, r._message_builder = disp, Builder()
        r._state, r._message_buffer = "Disconnected", []
        r._state_task = r._transmit_buffer_task = None
        r.state_changing_callback = None

        async def set_state(state):
            r._state = state
        r._set_state = set_state
        m1 = EM.RunStartedMsg(run_id="R", started_tick=1.0)
        m2 = EM.RunStoppedMsg(run_id="R", runlog=__import__("openpectus.protocol.models", fromlist=["RunLog"]).RunLog.empty(),
                              method_state=__import__("openpectus.protocol.models", fromlist=["MethodState"]).MethodState.empty(),
                              archive=None, archive_filename=None)
        await r._post_async(m1)
        await r._post_async(m2)
        problems = []
        if r._message_buffer != [m1, m2] or disp.attempts:
            problems.append("messages produced while disconnected are not buffered in order without a send")
        s1, s2 = m1.sequence_number, m2.sequence_number
        if s1 == -1 or s2 == -1 or s1 == s2 or not s1 < s2:
            problems.append(f"sequence numbers not unique/increasing: {s1}, {s2}")
        r._state = "CatchingUp"
        disp.fail_on.add(id(m2))
        await r._send_buffered_batch()
        if m1 not in disp.delivered:
            problems.append("m1 not delivered by the catch-up")
        if m2 in disp.delivered or m2 not in r._message_buffer:
            problems.append("m2 (failed attempt) is neither re-buffered nor marked undelivered")
        if r._message_buffer.count(m2) != 1 or m1 in r._message_buffer:
            problems.append(f"buffer after the partial catch-up holds {[type(x).__name__ for x in r._message_buffer]}")
        r._state = "CatchingUp"
        await r._send_buffered_batch()
        await r._send_buffered_batch()
        data = [m for m in disp.delivered if m is m1 or m is m2]
        if data.count(m1) != 1 or data.count(m2) != 1:
            problems.append(f"delivery counts m1={data.count(m1)} m2={data.count(m2)} (each must be delivered exactly once)")
        if (m1.sequence_number, m2.sequence_number) != (s1, s2):
            problems.append("a resent message changed its sequence number")
        if r._state != "Reconnected" or r._message_buffer:
            problems.append(f"after catching up: state={r._state}, {len(r._message_buffer)} message(s) stranded in the buffer")
        seqs = [m.sequence_number for m in disp.delivered]
        if len(set(seqs)) != len(seqs):
            problems.append(f"two delivered messages share a sequence number: {seqs}")
        return problems
    try:
        problems = asyncio.run(body())
    finally:
        logging.disable(logging.NOTSET)
    return {"violated": bool(problems), "problems": problems,
            "scenario": "Disconnected: post m1, m2; CatchingUp with m2's first attempt failing; CatchingUp again; CatchingUp on an empty buffer"}


def two_sends_in_flight_when_the_connection_closes():
    """Connected; two posts are in flight (both suspended inside send_async) when the connection closes: both must end up in the buffer"""
    import logging
    logging.disable(logging.CRITICAL)
    from openpectus.engine.engine_runner import EngineRunner
    from openpectus.protocol.engine_dispatcher import EngineDispatcher
    from openpectus.protocol.exceptions import ProtocolNetworkException
    import openpectus.protocol.engine_messages as EM

    class Disp:
        def __init__(self):
            self._sequence_number = 1
            self._engine_id = "E"

        def assign_sequence_number(self, message):
            return EngineDispatcher.assign_sequence_number(self, message)

        async def send_async(self, message):
            self.assign_sequence_number(message)
            await asyncio.sleep(0)
            raise ProtocolNetworkException("connection closed")

    async def body():
        r = object.__new__(EngineRunner)
        r._dispatcher, r._message_builder = Disp(), None
        r._state, r._message_buffer = "Connected", []
        r._state_task = r._transmit_buffer_task = None
        r.state_changing_callback = None

        async def set_state(state):
            r._state = state
        r._set_state = set_state
        m1 = EM.RunStartedMsg(run_id="R", started_tick=1.0)
        m2 = EM.WebPushNotificationMsg(notification=None, topic=None) if False else EM.RunStartedMsg(run_id="R2", started_tick=2.0)
        await asyncio.gather(r._post_async(m1), r._post_async(m2))
        lost = [m.run_id for m in (m1, m2) if m not in r._message_buffer]
        return {"violated": bool(lost), "lost": lost, "buffered": [m.run_id for m in r._message_buffer], "state": r._state}
    try:
        res = asyncio.run(body())
    finally:
        logging.disable(logging.NOTSET)
    res["scenario"] = "two _post_async calls suspended in send_async when the connection closes"
    return res


if __name__ == "__main__":
    print(outage_and_catch_up())
    print(two_sends_in_flight_when_the_connection_closes())
