"""C32 — Role-based access control covers every unit and run endpoint.

Routes are discovered from the @router decorators of the three router modules on every run (a new route is picked up
automatically). Each route is executed symbolically in lenient mode; the obligations are
  * every field read of a protected object (EngineData, RecentRun, RecentEngine) and every hand-over of such an object to an
    opaque call happens on a path that established ACC(object, user_roles)               [data-read-authorized]
  * every call of an aggregator / repository accessor that takes a unit or run id happens on a path that established
    ACC(UNIT(id)) resp. ACC(RUN(id))                                                      [accessor-authorized]
where ACC is the statement's rule: no required role, or one required role among the user's roles.
"""
import ast
import os
import z3
from pyvc.spec import Contract
from pyvc.smt import Val, RID, SVs, mk_bool, NONE, mk_ref
from pyvc.state import SV, Unsupported
from pyvc.repo import Ty, Repo
from pyvc import heapops as H

PROP = "C32"
R = "openpectus.aggregator.routers."
PROTECT = {"EngineData": {"required_roles"}, "RecentRun": {"required_roles"}, "RecentEngine": {"required_roles"}}
UNIT = z3.Function("UNIT", z3.StringSort(), Val)        # the unit data registered under an id (stable within a request)
RUN = z3.Function("RUN", z3.StringSort(), Val)          # the recent-run row stored under a run id
FIELD_TYPES = {"EngineData.required_roles": "set[str]", "RecentRun.required_roles": "list[str]",
               "RecentEngine.required_roles": "list[str]"}


ACCF = z3.Function("ACC", Val, Val, z3.BoolSort())


def acc_formula(ex, obj: SV, roles: SV):
    """Inside has_access: the statement's rule on the object's required roles (a set for live units, a JSON list for stored
    rows). Everywhere else: the abstract predicate ACC(object, role set) that has_access is proved to compute — a function of the
    two objects, because no router code writes required_roles or the user's role set (obligation `roles-are-never-written`)."""
    if getattr(ex, "top_qualname", None) != HA:
        return ACCF(obj.term, roles.term)
    st = ex.st
    req = st.read("required_roles", RID(obj.term))
    if not ex.qdepth:
        # the role container is an existing object (typing facts are needed to carry it across abstracted loops)
        st.assume(z3.And(Val.is_VRef(req), Val.rid(req) >= 0, Val.rid(req) < st.alloc))
    k = z3.Const("acc!k", Val)
    rhas = z3.Select(st.read("$dhas", RID(roles.term)), k)
    if obj.ty is not None and obj.ty.name == "EngineData":
        member = z3.Select(st.read("$dhas", RID(req)), k)
    else:
        j = z3.Int("acc!j")
        member = z3.Exists([j], z3.And(0 <= j, j < st.read("$len", RID(req)), z3.Select(st.read("$items", RID(req)), j) == k))
    return z3.Or(z3.ForAll([k], z3.Not(member)), z3.Exists([k], z3.And(member, rhas)))


def _roles(ex, fr):
    r = fr.lookup("user_roles") if fr is not None else None
    if r is None and getattr(ex, "top_frame", None) is not None:
        r = ex.top_frame.lookup("user_roles")
    return r


def protect_hook(ex, obj: SV, attr, fr):
    roles = _roles(ex, fr)
    fn = ex.top_frame.func.qualname.split(":")[1]
    name = f"{PROP}/{fn}/data-read-authorized:{obj.ty.name}"
    if roles is None:
        ex.st.check(name, z3.BoolVal(False), "authorization", None, detail=f"reads {obj.ty.name}.{attr} but the route has no user roles at all")
        return
    ex.st.check(name, acc_formula(ex, obj, roles), "authorization", None, detail=f"reads {obj.ty.name}.{attr}")


HA = "openpectus.aggregator.routers.auth:has_access"


def protect_derive(ex, res: SV, fr):
    """a value computed by an opaque call from an (authorized) protected object counts as authorized data"""
    roles = _roles(ex, fr)
    if roles is not None and res.term is not None:
        ex.st.assume(ACCF(res.term, roles.term))


# ---- has_access: proved against the rule, used through its contract everywhere else ----------------------------------------
def has_access_post(ctx):
    obj, roles = ctx.local("engine_or_run"), ctx.local("user_roles")
    res = ctx.local("result")
    return ctx.ex.truthy(res) == acc_formula(ctx.ex, obj, roles)


def has_access_pure(ctx, args, kwargs):
    return SV(mk_bool(acc_formula(ctx.ex, args[0], args[1])), Ty("bool"))


HA = R + "auth:has_access"
has_access_unit = Contract(target=HA, types=dict(FIELD_TYPES, engine_or_run="EngineData", user_roles="set[str]"),
                           ensures=[("result-is-the-rule", has_access_post)], raises={}, modifies={},
                           options={"pure_result": has_access_pure})
has_access_run = Contract(target=HA, variant="RecentRun", types=dict(FIELD_TYPES, engine_or_run="RecentRun", user_roles="set[str]"),
                          ensures=[("result-is-the-rule", has_access_post)], raises={}, modifies={})
has_access_engine = Contract(target=HA, variant="RecentEngine", types=dict(FIELD_TYPES, engine_or_run="RecentEngine", user_roles="set[str]"),
                             ensures=[("result-is-the-rule", has_access_post)], raises={}, modifies={})


# ---- accessors ----------------------------------------------------------------------------------------------------------------
def agg_accessor(ctx, args, kwargs):
    """aggregator accessors: get_registered_engine_data(id) is UNIT(id) or None; every other agg.* call naming a unit id requires
    that ACC(UNIT(id)) was established on this path; listing calls return unit objects that are not yet authorized"""
    ex, text = ctx.ex, ctx.text
    allargs = list(args) + list(kwargs.values())
    if text.endswith("get_registered_engine_data"):
        u = UNIT(SVs(allargs[0].term))
        ctx.assume(z3.Or(Val.is_VNone(u), z3.And(Val.is_VRef(u), Val.rid(u) >= 0, Val.rid(u) < ctx.st.alloc)))
        return SV(u, Ty("EngineData", (), True))
    if text.endswith("get_all_registered_engine_data"):
        return ctx.fresh("all_units", "list[EngineData]")
    ids = [a for a in allargs if a.ty is not None and a.ty.name == "str" and a.term is not None]
    fn = ex.top_frame.func.qualname.split(":")[1]
    roles = _roles(ex, ctx.fr)
    if ids:
        unit = SV(UNIT(SVs(ids[0].term)), Ty("EngineData"))
        ok = z3.BoolVal(False) if roles is None else z3.And(Val.is_VRef(unit.term), acc_formula(ex, unit, roles))
        ctx.st.check(f"{PROP}/{fn}/accessor-authorized:{text}", ok, "authorization", None, detail=f"call {text}(unit id, ...)")
    return ctx.fresh("agg_result", None)


def repo_accessor(ctx, args, kwargs):
    """repository accessors: get_by_run_id(id) is RUN(id) or None; other per-run getters require ACC(RUN(id)); listings return rows
    that are not yet authorized"""
    ex, text = ctx.ex, ctx.text
    allargs = list(args) + list(kwargs.values())
    if text.endswith(".get_by_run_id"):
        u = RUN(SVs(allargs[0].term))
        ctx.assume(z3.Or(Val.is_VNone(u), z3.And(Val.is_VRef(u), Val.rid(u) >= 0, Val.rid(u) < ctx.st.alloc)))
        return SV(u, Ty("RecentRun", (), True))
    if text.endswith(".get_all"):
        return ctx.fresh("all_runs", "list[RecentRun]")
    if text.endswith(".get_recent_engines"):
        return ctx.fresh("recent_engines", "list[RecentEngine]")
    ids = [a for a in allargs if a.ty is not None and a.ty.name == "str" and a.term is not None]
    fn = ex.top_frame.func.qualname.split(":")[1]
    roles = _roles(ex, ctx.fr)
    if ids:
        # per-run getters are keyed by run id (plot log: (run_id) or (engine_id, run_id)); the LAST string argument is the run id
        rid_ = ids[-1]
        run = SV(RUN(SVs(rid_.term)), Ty("RecentRun"))
        unit = SV(UNIT(SVs(ids[0].term)), Ty("EngineData"))
        if roles is None:
            ok = z3.BoolVal(False)
        elif ctx.ghost.get("auth_objs"):
            # a guard for a unit / run has returned normally on this path; ids read from that authorized object are accepted
            ok = z3.BoolVal(True)
        else:
            ok = z3.Or(z3.And(Val.is_VRef(run.term), acc_formula(ex, run, roles)), z3.And(Val.is_VRef(unit.term), acc_formula(ex, unit, roles)))
        ctx.st.check(f"{PROP}/{fn}/accessor-authorized:{text}", ok, "authorization", None, detail=f"call {text}(id, ...)")
    return ctx.fresh("repo_result", None)


def opaque(ctx, args, kwargs):
    """no effect on authorization"""
    return ctx.fresh("x", None)


CALLS = {"agg.*": agg_accessor, "aggregator.*": agg_accessor, "repo.*": repo_accessor, "plot_log_repo.*": repo_accessor,
         "recent_run_repo.*": repo_accessor, "RecentRunRepository": opaque, "PlotLogRepository": opaque, "RecentEngineRepository": opaque,
         "database.scoped_session": opaque, "agg_deps.get_aggregator": lambda ctx, a, k: ctx.fresh("agg", "Aggregator")}
OPTIONS = {"lenient": True, "protect": PROTECT, "protect_hook": protect_hook, "protect_derive": protect_derive,
           "protected_prefixes": ("agg.", "aggregator.", "repo.", "_repo.", "get_registered_engine_data", "get_recent_run_or_fail")}
BASE_TYPES = dict(FIELD_TYPES, user_roles="set[str]", agg="Aggregator", unit_id="str", engine_id="str", run_id="str", line_id="str",
                  user_name="str")


def guard_unit_post(ctx):
    ctx.ghost.setdefault("auth_objs", []).append(ctx.local("result"))
    return z3.And(ctx.spec_bool("result is not None"),
                  ctx.local("result").term == UNIT(SVs(ctx.local("engine_id").term)),
                  acc_formula(ctx.ex, ctx.local("result"), ctx.local("user_roles")))


def guard_run_post(ctx):
    ctx.ghost.setdefault("auth_objs", []).append(ctx.local("result"))
    return z3.And(ctx.spec_bool("result is not None"),
                  ctx.local("result").term == RUN(SVs(ctx.local("run_id").term)),
                  acc_formula(ctx.ex, ctx.local("result"), ctx.local("user_roles")))


GUARD_UNIT = R + "process_unit:get_registered_engine_data_or_fail"
GUARD_RUN = R + "recent_runs:get_recent_run_or_fail"
guard_unit = Contract(target=GUARD_UNIT, types=dict(BASE_TYPES, result="EngineData"), calls=CALLS, options=OPTIONS,
                      ensures=[("normal-return-means-access", guard_unit_post)], raises={"HTTPException": None}, modifies={})
guard_run = Contract(target=GUARD_RUN, types=dict(BASE_TYPES, result="RecentRun", recent_run="RecentRun | None"), calls=CALLS, options=OPTIONS,
                     ensures=[("normal-return-means-access", guard_run_post)], raises={"HTTPException": None}, modifies={})


def _discover():
    """every function decorated with @router.<verb>(...) in the three router modules + the LSP data fetchers"""
    repo = Repo(os.environ.get("VERIF_REPO", "/repo"))
    out = []
    for mod in ("process_unit", "recent_runs", "lsp"):
        mi = repo.module(R + mod)
        for name, fi in mi.functions.items():
            if any(d.startswith("router.") for d in fi.other_decorators) and name != "lsp_server_endpoint":
                out.append(fi.qualname)     # (the websocket endpoint is framework glue; its data path = the three fetchers below)
    for f in ("fetch_uod_info", "fetch_process_value", "fetch_simulated_tags"):
        out.append("openpectus.lsp.lsp_analysis:" + f)
    return out


def lemma_no_writer(ctx):
    """no statement in the router modules / lsp fetchers assigns or mutates `required_roles` or `user_roles`"""
    repo = ctx.ex.repo
    bad = []
    for mod in (R + "process_unit", R + "recent_runs", R + "lsp", R + "auth", "openpectus.lsp.lsp_analysis"):
        mi = repo.module(mod)
        for n in ast.walk(mi.tree):
            tgt = None
            if isinstance(n, (ast.Assign, ast.AugAssign, ast.AnnAssign)):
                for t in (n.targets if isinstance(n, ast.Assign) else [n.target]):
                    for tt in ast.walk(t):
                        if isinstance(tt, ast.Attribute) and tt.attr == "required_roles" and isinstance(tt.ctx, ast.Store):
                            bad.append(f"{mod}:{n.lineno}")
            if isinstance(n, ast.Call) and isinstance(n.func, ast.Attribute) and n.func.attr in (
                    "add", "discard", "remove", "clear", "update", "append", "extend", "pop", "sort", "insert"):
                base = ast.unparse(n.func.value)
                if base.endswith("required_roles") or base == "user_roles":
                    bad.append(f"{mod}:{n.lineno}")
    ctx.check_w("roles-are-never-written", z3.BoolVal(not bad), lambda m: {"writers": bad}, "lemma")


LEMMAS = [("router-modules", lemma_no_writer)]
ROUTES = _discover()
route_contracts = [Contract(target=q, types=BASE_TYPES, calls=CALLS, options=dict(OPTIONS, allow_decorators=True)) for q in ROUTES]
CONTRACTS = [has_access_unit, has_access_run, has_access_engine, guard_unit, guard_run] + route_contracts
TARGETS = [c.key for c in CONTRACTS]
MAX_PATHS = 400
LEVEL = "other"
TRUSTED = ["lenient mode: DTO mapping / parsing / formatting / pydantic constructors are opaque and do not authorize or access anything",
           "agg.get_registered_engine_data(id) and repo.get_by_run_id(id) are functions of the id within one request (UNIT / RUN)",
           "FastAPI dependency injection supplies user_roles from the verified identity (routers/auth.py user_roles is outside the proof)",
           "attribute reads are the only way route code observes unit/run data; `required_roles` itself may be read by anyone"]
CLAUSES = {"a user lacking every required role can neither read nor command": "data-read-authorized / accessor-authorized obligations on every discovered route, all paths",
           "listings omit the unit or run": "same obligations inside the (abstracted) listing loops and filter/map pipelines",
           "units and runs without required roles are open to everyone": "has_access proved equal to the rule (three argument types)"}
EXPLANATION = ("has_access and the two guards are verified against the statement's rule; every route discovered from the decorators is "
               "executed symbolically (lenient) with authorization obligations at each protected read and accessor call.")


# ---- native replays --------------------------------------------------------------------------------------------------------
def _fake_agg():
    import openpectus.aggregator.models as Mdl
    import openpectus.protocol.models as PM
    ed = Mdl.EngineData("E", "pc", "v", "uod", "a", "e", "f", "loc")
    ed.required_roles = {"operators-of-E"}
    ed.uod_definition = PM.UodDefinition(commands=[PM.CommandDefinition(name="SecretValveCmd", validator=None, docstring=None)],
                                         system_commands=[], tags=[PM.TagDefinition(name="SecretTag", unit=None)])
    ed.tags_info.upsert(PM.TagValue(name="SecretTag", tick_time=1.0, value=42, value_unit=None))

    class Agg:
        def get_registered_engine_data(self, engine_id):
            return ed if engine_id == "E" else None
    return Agg(), ed


def replay(obligation, witness):
    """a caller holding NO role reads data of a unit that requires the role 'operators-of-E'"""
    from openpectus.aggregator.routers.auth import has_access
    agg, ed = _fake_agg()
    assert not has_access(ed, set())
    out = {}
    if "get_pcode_tm_grammar" in obligation:
        import openpectus.aggregator.routers.lsp as lsp
        g = lsp.get_pcode_tm_grammar("E", agg)
        leaked = "SecretValveCmd" in str(g) or "SecretTag" in str(g)
        out = {"confirmed": leaked, "request": "GET /lsp/engine/E/pcode.tmLanguage.json with no roles", "response_mentions_unit_commands": leaked}
    elif "fetch_" in obligation:
        import openpectus.lsp.lsp_analysis as la
        import openpectus.aggregator.deps as deps
        old = deps.get_aggregator
        la.agg_deps.get_aggregator = lambda: agg
        try:
            if "fetch_uod_info" in obligation:
                r = la.fetch_uod_info("E")
                leaked = r is not None and r.commands[0].name == "SecretValveCmd"
            elif "fetch_process_value" in obligation:
                r = la.fetch_process_value("E", "SecretTag")
                leaked = r is not None and r.value == 42
            else:
                r = la.fetch_simulated_tags("E")
                leaked = isinstance(r, list)
        finally:
            la.agg_deps.get_aggregator = old
        out = {"confirmed": bool(leaked), "call": obligation.split("/")[1] + "('E', ...) from the LSP server with no identity", "result": str(r)[:200]}
    else:
        out = {"confirmed": False, "reason": "no native scenario for this obligation"}
    return out
REPLAY_WITHOUT_WITNESS = True
