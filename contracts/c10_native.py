"""Native scenario for C10: a UOD command with invalid arguments, then Stop — no command instance may remain allocated."""
import logging


def invalid_arguments_then_stop():
    from openpectus.test.engine.test_engine import create_test_uod
    from openpectus.test.engine.utility_methods import EngineTestRunner
    logging.disable(logging.CRITICAL)
    try:
        runner = EngineTestRunner(create_test_uod, "CmdWithArgs: FAIL\nWait: 1s\n", fail_on_log_error=False)
        with runner.run() as instance:
            e = instance.engine
            instance.start()
            for _ in range(5):
                try:
                    instance.run_ticks(1)
                except Exception:
                    pass            # the failing command puts the engine into its error pause; keep ticking
            after_failure = list(e.uod.command_instances.keys())
            e.execute_control_command_from_user("Stop")
            for _ in range(5):
                try:
                    instance.run_ticks(1)
                except Exception:
                    pass
            left = list(e.uod.command_instances.keys())
            state = str(e._system_tags["System State"].get_value())
            return {"violated": bool(left), "scenario": "`CmdWithArgs: FAIL` (arguments rejected by the command's parser), then Stop",
                    "instances_after_the_failed_command": after_failure, "instances_after_stop": left, "system_state": state}
    finally:
        logging.disable(logging.NOTSET)


if __name__ == "__main__":
    print(invalid_arguments_then_stop())


def stop_while_uod_commands_follow_back_to_back():
    """Stop requested at various ticks of a method made of back-to-back UOD commands: nothing may stay allocated after Stop"""
    from openpectus.test.engine.test_engine import create_test_uod
    from openpectus.test.engine.utility_methods import EngineTestRunner
    logging.disable(logging.CRITICAL)
    try:
        for delay in range(2, 12):
            runner = EngineTestRunner(create_test_uod, "Reset\noverlap1\noverlap2\nReset\noverlap1\noverlap2\n", fail_on_log_error=False)
            with runner.run() as instance:
                e = instance.engine
                instance.start()
                for _ in range(delay):
                    instance.run_ticks(1)
                e.execute_control_command_from_user("Stop")
                for _ in range(6):
                    try:
                        instance.run_ticks(1)
                    except Exception:
                        pass
                left = list(e.uod.command_instances.keys())
                if left:
                    return {"violated": True, "scenario": f"Stop requested {delay} tick(s) after Start in a method of back-to-back UOD commands",
                            "instances_after_stop": left, "system_state": str(e._system_tags["System State"].get_value())}
        return {"violated": False, "scenarios": 10}
    finally:
        logging.disable(logging.NOTSET)
