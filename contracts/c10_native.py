"""Native scenario for C10: a UOD command with invalid arguments, then Stop — no command instance may remain allocated."""
import logging


def invalid_arguments_then_stop():
    from openpectus.test.engine.test_engine import create_test_uod
    from openpectus.test.engine.utility_methods import EngineTestRunner
    logging.disable(logging.CRITICAL)
    try:
        runner = EngineTestRunner(create_test_uod, "CmdWithArgs: FAIL\nWait: 1s\n", fail_on_log_error=False)
        with runner.run() as instance:
            e = instance.engine
            instance.start()
            for _ in range(5):
                try:
                    instance.run_ticks(1)
                except Exception:
                    pass            # the failing command puts the engine into its error pause; keep ticking
            after_failure = list(e.uod.command_instances.keys())
            e.execute_control_command_from_user("Stop")
            for _ in range(5):
                try:
                    instance.run_ticks(1)
                except Exception:
                    pass
            left = list(e.uod.command_instances.keys())
            state = str(e._system_tags["System State"].get_value())
            return {"violated": bool(left), "scenario": "`CmdWithArgs: FAIL` (arguments rejected by the command's parser), then Stop",
                    "instances_after_the_failed_command": after_failure, "instances_after_stop": left, "system_state": state}
    finally:
        logging.disable(logging.NOTSET)


if __name__ == "__main__":
    print(invalid_arguments_then_stop())


def stop_while_uod_commands_follow_back_to_back():
    """Stop requested at various ticks of a method made of back-to-back UOD commands: nothing may stay allocated after Stop"""
    from openpectus.test.engine.test_engine import create_test_uod
    from openpectus.test.engine.utility_methods import EngineTestRunner
    logging.disable(logging.CRITICAL)
    try:
        for delay in range(2, 12):
            runner = EngineTestRunner(create_test_uod, "Reset\noverlap1\noverlap2\nReset\noverlap1\noverlap2\n", fail_on_log_error=False)
            with runner.run() as instance:
                e = instance.engine
                instance.start()
                for _ in range(delay):
                    instance.run_ticks(1)
                e.execute_control_command_from_user("Stop")
                for _ in range(6):
                    try:
                        instance.run_ticks(1)
                    except Exception:
                        pass
                left = list(e.uod.command_instances.keys())
                if left:
                    return {"violated": True, "scenario": f"Stop requested {delay} tick(s) after Start in a method of back-to-back UOD commands",
                            "instances_after_stop": left, "system_state": str(e._system_tags["System State"].get_value())}
        return {"violated": False, "scenarios": 10}
    finally:
        logging.disable(logging.NOTSET)


def user_started_command_then_stop():
    """a long-running UOD command started from the USER side (its node is a NullNode, so tracking refuses to mark it cancelled), then Stop
    or Restart a few ticks later: nothing may stay allocated or keep executing"""
    from openpectus.lang.exec.uod import UodBuilder, UodCommand
    from openpectus.test.engine.utility_methods import EngineTestRunner
    logging.disable(logging.CRITICAL)
    execs = []

    def hold_valve(cmd: UodCommand, **kw):
        execs.append(1)

    def create_uod():
        uod = (UodBuilder().with_instrument("DemoUod").with_author("Demo", "demo@example.org").with_filename(__file__)
               .with_hardware_none().with_location("loc").with_command(name="HoldValve", exec_fn=hold_valve).build())
        uod.hwl.connect()
        return uod
    try:
        for stopper in ("Stop", "Restart"):
            for delay in (1, 2, 4):
                with EngineTestRunner(create_uod, "Mark: A\nWait: 5s\n", fail_on_log_error=False).run() as instance:
                    e = instance.engine
                    instance.start()
                    instance.run_ticks(2)
                    e.execute_control_command_from_user("HoldValve")
                    for _ in range(delay):
                        instance.run_ticks(1)
                    e.execute_control_command_from_user(stopper)
                    for _ in range(5):
                        try:
                            instance.run_ticks(1)
                        except Exception:
                            pass
                    n_before = len(execs)
                    for _ in range(3):
                        try:
                            instance.run_ticks(1)
                        except Exception:
                            pass
                    left = list(e.uod.command_instances.keys())
                    if left or len(execs) != n_before:
                        return {"violated": True, "scenario": f"user-started HoldValve, {stopper} {delay} tick(s) later",
                                "instances_left": left, "still_executing": len(execs) != n_before}
        return {"violated": False, "scenarios": 6}
    finally:
        logging.disable(logging.NOTSET)


def command_and_stop_in_the_same_tick():
    """a UOD command and Stop / Restart requested by the user between the same two ticks (the command first): the command's request is
    in the executing list but has no instance when Stop cancels all commands"""
    from openpectus.lang.exec.uod import UodBuilder, UodCommand
    from openpectus.test.engine.utility_methods import EngineTestRunner
    logging.disable(logging.CRITICAL)

    def hold_valve(cmd: UodCommand, **kw):
        pass

    def create_uod():
        uod = (UodBuilder().with_instrument("DemoUod").with_author("Demo", "demo@example.org").with_filename(__file__)
               .with_hardware_none().with_location("loc").with_command(name="HoldValve", exec_fn=hold_valve).build())
        uod.hwl.connect()
        return uod
    try:
        for stopper in ("Stop", "Restart"):
            with EngineTestRunner(create_uod, "Mark: A\nWait: 5s\n", fail_on_log_error=False).run() as instance:
                e = instance.engine
                instance.start()
                instance.run_ticks(2)
                e.execute_control_command_from_user("HoldValve")
                e.execute_control_command_from_user(stopper)
                for _ in range(6):
                    try:
                        instance.run_ticks(1)
                    except Exception:
                        pass
                left = list(e.uod.command_instances.keys())
                if left:
                    return {"violated": True, "scenario": f"HoldValve and {stopper} requested between the same two ticks", "instances_left": left,
                            "system_state": str(e._system_tags["System State"].get_value())}
        return {"violated": False, "scenarios": 2}
    finally:
        logging.disable(logging.NOTSET)


def raising_finalizer_leaves_no_instance_behind():
    """a UOD command whose finalize callback raises: after the failure (and after Stop) the uod must not hold its instance"""
    import logging
    from contracts.c15_native import _uod
    from openpectus.test.engine.utility_methods import EngineTestRunner
    logging.disable(logging.CRITICAL)
    try:
        runner = EngineTestRunner(_uod(final_raises=True, ticks=2), "Reset\nMark: A\n", fail_on_log_error=False)
        with runner.run() as inst:
            e = inst.engine
            inst.start_run()
            for _ in range(8):
                try:
                    inst.run_ticks(1, fail_on_log_error=False)
                except Exception:
                    pass
            held_after_failure = list(e.uod.command_instances.keys())
            e.schedule_execution("Stop")
            for _ in range(5):
                try:
                    inst.run_ticks(1, fail_on_log_error=False)
                except Exception:
                    pass
            held_after_stop = list(e.uod.command_instances.keys())
            return {"violated": bool(held_after_failure or held_after_stop), "instances_held_after_the_failed_finalizer": held_after_failure,
                    "instances_held_after_stop": held_after_stop, "scenario": "UOD command `Reset` completes, its finalize_fn raises; then Stop"}
    finally:
        logging.disable(logging.NOTSET)
