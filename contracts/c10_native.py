"""Native scenario for C10: a UOD command with invalid arguments, then Stop — no command instance may remain allocated."""
import logging


def invalid_arguments_then_stop():
    from openpectus.test.engine.test_engine import create_test_uod
    from openpectus.test.engine.utility_methods import EngineTestRunner
    logging.disable(logging.CRITICAL)
    try:
        runner = EngineTestRunner(create_test_uod, "CmdWithArgs: FAIL\nWait: 1s\n", fail_on_log_error=False)
        with runner.run() as instance:
            e = instance.engine
            instance.start()
            for _ in range(5):
                try:
                    instance.run_ticks(1)
                except Exception:
                    pass            # the failing command puts the engine into its error pause; keep ticking
            after_failure = list(e.uod.command_instances.keys())
            e.execute_control_command_from_user("Stop")
            for _ in range(5):
                try:
                    instance.run_ticks(1)
                except Exception:
                    pass
            left = list(e.uod.command_instances.keys())
            state = str(e._system_tags["System State"].get_value())
            return {"violated": bool(left), "scenario": "`CmdWithArgs: FAIL` (arguments rejected by the command's parser), then Stop",
                    "instances_after_the_failed_command": after_failure, "instances_after_stop": left, "system_state": state}
    finally:
        logging.disable(logging.NOTSET)


if __name__ == "__main__":
    print(invalid_arguments_then_stop())
