"""C15 — Run log is always producible and well-formed (partial: at most one conclusive state per command execution).

RuntimeInfo._get_record_runlog_items closes a run-log item at the first Completed / Failed / Cancelled state of an invocation and raises
AssertionError("Error generating runlog") if the same invocation carries another state afterwards. The run log is therefore producible
only if every instruction instance receives AT MOST ONE conclusive state. Contract on the real CommandManager._execute_uod_command (its caller _execute_command
marks the request Failed for every exception that escapes; _cancel_command under its C10 contract): on normal exit at most one conclusive
tracking mark (mark_completed / mark_failed / mark_cancelled) was issued for THIS request, on exceptional exit none. The two scans that cancel other requests are under the same assumed loop contract as in C10 (they mark other requests only)."""
import z3
from pyvc.spec import Contract, LoopSpec
import contracts.c10 as c10

PROP = "C15"
LEVEL = "other"
CM = c10.CM
CONCLUSIVE = ("mark_completed", "mark_failed", "mark_cancelled")


def tracking_call(ctx, args, kwargs):
    """Tracking.mark_*(instance): bookkeeping (assumed not to raise); conclusive marks are recorded in a ghost log with their instance"""
    name = ctx.text.split(".")[-1]
    if name in CONCLUSIVE and args:
        ctx.ghost.setdefault("conclusive", []).append((name, args[0]))
    return ctx.fresh("opaque", None)


tracking_call.modifies = []


def not_internal(ctx, args, kwargs):
    """EngineCommandEnum.has_value(name): False — this contract is about UOD command requests"""
    from pyvc.smt import mk_bool
    from pyvc.state import SV
    from pyvc.repo import Ty
    return SV(mk_bool(False), Ty("bool"))


not_internal.modifies = []
CALLS = dict(c10.CALLS, **{"self.tracking.*": tracking_call, "EngineCommandEnum.has_value": not_internal})


def cancel_call(ctx, args, kwargs):
    """CommandManager._cancel_command(request): disposes the instance (contract proved in C10) and, unless the command had already
    completed, marks the request Cancelled in tracking (read in the code: cmd.cancel(); tracking.mark_cancelled(request))"""
    mc = kwargs.get("mark_cancelled", args[2] if len(args) > 2 else None)
    if mc is not None:
        from pyvc.smt import simplify_bool
        if simplify_bool(ctx.truthy(mc)) is False:
            return ctx.none()           # clean-up only: the tracking mark is suppressed by the caller
    if ctx.choose(2, "_cancel_command: command already complete?") == 0:
        ctx.ghost.setdefault("conclusive", []).append(("mark_cancelled", args[0]))
    return ctx.none()


cancel_call.modifies = []
CALLS["self._cancel_command"] = cancel_call


def finalize_call(ctx, args, kwargs):
    """CommandManager._finalize_command(request, cmd): runs the user finalizer, which MAY RAISE (the request is retired all the same:
    try/finally in the real function, contract in C10)"""
    if ctx.choose(2, "user finalizer outcome") == 1:
        ctx.raise_("Exception", "finalize callback raised")
    return ctx.none()


finalize_call.modifies = []
CALLS["self._finalize_command"] = finalize_call


def on_exit(ctx, kind, result):
    req = ctx.local("cmd_request")
    marks = ctx.ghost.get("conclusive", [])
    total = z3.Sum([z3.If(m[1].term == req.term, 1, 0) for m in marks]) if marks else z3.IntVal(0)
    total = z3.simplify(total)
    names = ",".join(m[0] for m in marks)
    if z3.is_int_value(total):          # every mark is syntactically for this request (or none): decided without the solver
        n = total.as_long()
        if kind == "return":
            ctx.check_w("at-most-one-conclusive-state-for-this-request", z3.BoolVal(n <= 1), lambda model: {"marks_in_order": names}, "postcondition")
        else:
            ctx.check_w("no-conclusive-state-before-the-failure-is-recorded", z3.BoolVal(n == 0),
                        lambda model: {"marks_in_order": names + ",mark_failed(by _execute_command)"}, "exceptional-postcondition")
        return
    if kind == "return":
        ctx.check_w("at-most-one-conclusive-state-for-this-request", total <= 1, lambda model: {"marks_in_order": names}, "postcondition")
    else:
        # the caller (_execute_command) marks the request Failed for every exception that escapes: no conclusive state may precede it
        ctx.check_w("no-conclusive-state-before-the-failure-is-recorded", total == 0,
                    lambda model: {"marks_in_order": names + ",mark_failed(by _execute_command)"}, "exceptional-postcondition")


execute_command = Contract(
    target=CM + "_execute_uod_command", types=c10.TYPES, calls=CALLS, options=c10.OPTS, raises=None, on_exit=on_exit,
    requires=[c10.REP, "cmd_request.name is not None and cmd_request.name.strip() != ''", f"cmd_request not in {c10.DONE}",
              "all(r.name.strip() != '' for r in self.cmd_executing)"],
    loops={"for c in self.currently_executing": LoopSpec(invariant=c10.LOOP_INV, assumed=True),
           "for c in self.currently_executing#1": LoopSpec(invariant=c10.LOOP_INV, assumed=True),
           "for overlap_list in self.uod.overlapping_command_names_lists": LoopSpec(invariant=c10.LOOP_INV, assumed=True)})

# ---- the interpreter side of the same necessary condition (contracts shared with C12) --------------------------------------------------
# RuntimeInfo raises when a Cancelled (or Forced) state is followed by Completed/Started for the same instance. The interpreter runs the
# body of a Watch / Alarm whose condition has fired regardless of a later cancel, and marks it completed. So a cancel / force may only
# be ACCEPTED (and recorded by Tracking.mark_cancelled / mark_forced) while the instruction can still be stopped: the cancel/force laws
# of NodeWithCondition and the two tracking marks are obligations of this property as well.
import contracts.c12 as c12        # noqa: E402
SHARED = [c for c in c12.node_laws if c.variant == "NodeWithCondition"] + [c12.mark_cancelled, c12.mark_cancelled_req, c12.mark_forced]
CONTRACTS = [execute_command] + SHARED
TARGETS = [c.key for c in CONTRACTS]
TRUSTED = ["ASSUMED (not proved): the two scans at the top of _execute_uod_command only cancel (and mark) OTHER requests",
           "tracking bookkeeping does not raise; uod initialize/execute callbacks and user finalizers may raise anything",
           "RuntimeInfo._get_record_runlog_items needs at most one conclusive state per invocation (read in the code: it raises AssertionError otherwise); "
           "that consumer, the interpreter's own Started/Completed marks for instruction nodes and internal engine commands are NOT under this contract (read: visit_WatchNode runs an activated body regardless of a later cancel)"]
CLAUSES = {"for any execution the run log can be produced": "necessary conditions on the producer side: (1) UOD command requests: at most one conclusive state per execution (all paths of _execute_command, including failing callbacks); (2) Watch/Alarm: a cancel or force is accepted and recorded only before activation (cancel/force laws of NodeWithCondition, Tracking.mark_cancelled / mark_forced record a state only for an accepted request; shared with C12)",
           "ordered by start time, distinct ids, no item ends before it starts, conclusive items have an end time and are not cancellable/forcible, completed instructions appear": "NOT covered"}
EXPLANATION = "Partial claim: ghost count of conclusive tracking marks per request on every exit of CommandManager._execute_command."


def replay(obligation, witness):
    import contracts.c15_native as n
    if "mark_cancelled" in obligation and "invocation" in obligation:
        r = n.alarm_refiring_over_a_long_running_command()
    elif "no-conclusive-state-before-the-failure" in obligation:
        r = n.finalizer_that_raises_after_completion()
        if not r["violated"]:
            r = n.failing_uod_command_keeps_the_run_log_producible()
    else:
        r = n.failing_uod_command_keeps_the_run_log_producible()
    return {"confirmed": bool(r["violated"]), **r}


REPLAY_WITHOUT_WITNESS = True


def _mk(fn):
    def run():
        import contracts.c15_native as n
        r = getattr(n, fn)()
        return {"ok": not r["violated"], "observation": r}
    return run


NATIVE = [("native:failing-uod-command-keeps-the-run-log-producible", _mk("failing_uod_command_keeps_the_run_log_producible")),
          ("native:force-of-a-completed-wait", _mk("force_of_a_completed_wait")),
          ("native:cancel-of-a-command-awaiting-its-threshold", _mk("cancel_of_a_command_awaiting_its_threshold")),
          ("native:finalizer-that-raises-after-completion", _mk("finalizer_that_raises_after_completion")),
          ("native:alarm-refiring-over-a-long-running-command", _mk("alarm_refiring_over_a_long_running_command"))]
BOUNDED = ["five native scenarios on the real engine (failing execute callback, force of a completed Wait, cancel of a command awaiting its "
           "threshold, raising finalizer, Alarm firing again over a running command): the run log must stay producible; bounded, not counted"]
