"""Native oracle for C33: the real WebPushPublisher methods run against an in-memory repository and a recording sender over an
exhaustive small domain (2 users, 3 scopes, 2 role sets, listed/not listed unit, 3 required-role sets, all contributor subsets,
2 topics, contributor id named / absent). Independent Python statement of the entitlement rule."""
import asyncio
import itertools
from types import SimpleNamespace


class Pref(SimpleNamespace):
    pass


class Sub(SimpleNamespace):
    pass


class FakeRepo:
    def __init__(self, prefs, subs):
        self.prefs, self.subs = prefs, subs

    def get_notification_preferences_for_topic(self, topic):
        return [p for p in self.prefs if topic in p.topics]

    def get_subscriptions(self, user_ids):
        return [s for s in self.subs if s.user_id in user_ids]

    def delete_subscription(self, s):
        pass


def entitled(user_id, prefs, topic, unit, Scope):
    for p in prefs:
        if p.user_id != user_id or topic not in p.topics:
            continue
        req = set(unit.required_roles)
        if not (len(req) == 0 or len(req & set(p.user_roles)) > 0):
            continue
        if p.scope == Scope.PROCESS_UNITS_I_HAVE_ACCESS_TO:
            return True
        if p.scope == Scope.PROCESS_UNITS_WITH_RUNS_IVE_CONTRIBUTED_TO and any(c.id == user_id for c in unit.contributors):
            return True
        if p.scope == Scope.SPECIFIC_PROCESS_UNITS and unit.engine_id in p.process_units:
            return True
    return False


def scenarios():
    from openpectus.aggregator.models import NotificationScope as Scope, NotificationTopic as Topic, Contributor
    users = ["".join(["u", str(k)]) for k in (1, 2)]       # built at run time: equal to other "u1" strings but not the same object
    per_user = list(itertools.product(list(Scope), ([], ["r"]), ([], ["E"]), ([Topic.RUN_START, Topic.NEW_CONTRIBUTOR], [Topic.RUN_STOP])))
    for (c1, c2) in itertools.product(per_user, per_user):
        for req in (set(), {"r"}, {"x"}):
            for contrib in ((), ("u1",), ("u2",), ("u1", "u2")):
                prefs = [Pref(user_id=u, scope=c[0], user_roles=list(c[1]), process_units=list(c[2]), topics=list(c[3]))
                         for u, c in zip(users, (c1, c2))]
                subs = [Sub(user_id="".join(["u", "1"]), endpoint="e1", auth="a", p256dh="k"), Sub(user_id="".join(["u", "1"]), endpoint="e1b", auth="a", p256dh="k"),
                        Sub(user_id="".join(["u", "2"]), endpoint="e2", auth="a", p256dh="k")]
                unit = SimpleNamespace(engine_id="E", required_roles=req, contributors={Contributor(id=u, name=u) for u in contrib})
                yield prefs, subs, unit


def check_get_subscriptions(limit=None):
    from openpectus.aggregator.webpush_publisher import WebPushPublisher
    from openpectus.aggregator.models import NotificationScope as Scope, NotificationTopic as Topic
    pub = object.__new__(WebPushPublisher)
    n = 0
    for prefs, subs, unit in scenarios():
        for topic in (Topic.RUN_START, Topic.NEW_CONTRIBUTOR):
            n += 1
            res = list(pub._get_subscriptions_for_topic(topic, unit, FakeRepo(prefs, subs)))
            ids = [id(s) for s in res]
            bad = [s for s in res if not entitled(s.user_id, prefs, topic, unit, Scope)]
            if bad or len(set(ids)) != len(ids):
                return {"violated": True, "function": "_get_subscriptions_for_topic", "topic": str(topic),
                        "preferences": [vars(p) for p in prefs], "unit": {"required_roles": sorted(unit.required_roles),
                                                                         "contributors": sorted(c.id for c in unit.contributors)},
                        "returned_for_users": [s.user_id for s in res], "not_entitled": [s.user_id for s in bad]}
    return {"violated": False, "scenarios": n}


def check_publish():
    import openpectus.aggregator.webpush_publisher as W
    from openpectus.aggregator.models import NotificationScope as Scope, NotificationTopic as Topic, WebPushNotification, WebPushData
    import contextlib
    pub = object.__new__(W.WebPushPublisher)
    pub.wp = object()
    posted = []

    async def fake_post(self, subscription, repo, notification):
        posted.append(subscription)

    saved = (W.WebPushPublisher._post_webpush, W.database, W.WebPushRepository)
    cur = {}
    W.WebPushPublisher._post_webpush = fake_post
    W.database = SimpleNamespace(create_scope=lambda: contextlib.nullcontext(), scoped_session=lambda: None)
    W.WebPushRepository = lambda session: cur["repo"]
    n = 0
    try:
        loop = asyncio.new_event_loop()
        for k, (prefs, subs, unit) in enumerate(scenarios()):
            if k % 7:
                continue        # thinned: the async path is slower; the sync selection is checked exhaustively above
            for topic, cid in ((Topic.RUN_START, None), (Topic.NEW_CONTRIBUTOR, "".join(["u", "1"])), (Topic.NEW_CONTRIBUTOR, None)):
                n += 1
                cur["repo"] = FakeRepo(prefs, subs)
                posted.clear()
                note = WebPushNotification(title="t", data=WebPushData(process_unit_id="E", contributor_id=cid))
                loop.run_until_complete(pub.publish_message(note, topic, unit))
                ids = [id(s) for s in posted]
                bad = [s.user_id for s in posted if not entitled(s.user_id, prefs, topic, unit, Scope)]
                selfn = [s.user_id for s in posted if topic is Topic.NEW_CONTRIBUTOR and cid is not None and s.user_id == cid]
                if bad or selfn or len(set(ids)) != len(ids):
                    return {"violated": True, "function": "publish_message", "topic": str(topic), "contributor_id": cid,
                            "preferences": [vars(p) for p in prefs], "unit": {"required_roles": sorted(unit.required_roles),
                                                                             "contributors": sorted(c.id for c in unit.contributors)},
                            "posted_to": [s.endpoint for s in posted], "not_entitled": bad, "sent_to_the_new_contributor": selfn,
                            "posted_twice": len(set(ids)) != len(ids)}
        loop.close()
    finally:
        W.WebPushPublisher._post_webpush, W.database, W.WebPushRepository = saved
    return {"violated": False, "scenarios": n}


def check_has_access():
    from openpectus.aggregator.routers.auth import has_access
    for req in (set(), {"a"}, {"a", "b"}):
        for roles in (set(), {"a"}, {"b"}, {"c"}, {"a", "c"}):
            want = len(req) == 0 or any(r in roles for r in req)
            if bool(has_access(SimpleNamespace(required_roles=req), roles)) != want:
                return {"violated": True, "function": "has_access", "required_roles": sorted(req), "user_roles": sorted(roles)}
    return {"violated": False}


if __name__ == "__main__":
    print(check_has_access())
    print(check_get_subscriptions())
    print(check_publish())
