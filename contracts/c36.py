"""C36 — Every changed tag is reported with its latest value (mechanism: change notification).

The engine's reports are built from the change listeners (Engine.notify_tag_updates -> tag_updates queue -> collect_tag_updates).
Contract generated for EVERY method of Tag and of every Tag subclass in tags.py / tags_impl.py / archiver.py that assigns
self.value / self.simulated_value / self.simulated (discovered on every run):
    if the observable value (simulated_value if simulated else value) differs at exit from entry, the listeners were notified with the
    tag's own name during the call.
"""
import ast
import os
import z3
from pyvc.spec import Contract, LoopSpec
from pyvc.smt import Val, RID, BV, mk_bool
from pyvc.state import SV
from pyvc.repo import Ty, Repo

PROP = "C36"
MODS = ["openpectus.lang.exec.tags", "openpectus.lang.exec.tags_impl", "openpectus.engine.archiver"]
FIELDS = ("value", "simulated_value", "simulated")


def notify(ctx, args, kwargs):
    """ChangeSubject.notify_listeners(name): every registered listener records `name` as changed (dispatch loop, assumed)"""
    s = ctx.ex.top_frame.lookup("self")
    ok = args[0].term == ctx.st.read("name", RID(s.term))
    prev = ctx.ghost.get("notified_own_name", z3.BoolVal(False))
    ctx.ghost["notified_own_name"] = z3.Or(prev, ok)
    return ctx.none()


notify.modifies = []


def _obs(st, heap, s):
    from pyvc.smt import field_sort
    rd = lambda f: z3.Select(heap[f] if f in heap else z3.Const(f"H0!{f}", field_sort(f)), RID(s.term))
    sim = rd("simulated")
    return z3.If(z3.And(Val.is_VBool(sim), Val.bv(sim)), rd("simulated_value"), rd("value"))


def on_exit(ctx, kind, result):
    if kind != "return":
        return
    st = ctx.st
    s = ctx.local("self")
    before = _obs(st, ctx.fr.entry_heap, s)
    after = _obs(st, st.heap, s)
    notified = ctx.ghost.get("notified_own_name", z3.BoolVal(False))
    ctx.check("observable-value-changed=>listeners-notified-with-the-tags-name", z3.Implies(before != after, notified), "postcondition")


def _discover():
    repo = Repo(os.environ.get("VERIF_REPO", "/repo"))
    out = []
    for mod in MODS:
        mi = repo.module(mod)
        for ci in mi.classes.values():
            if ci.name != "Tag" and not ci.is_subclass_of(repo, "Tag"):
                continue
            for fi in ci.methods.values():
                if fi.name == "__init__":
                    continue
                writes = False
                for n in ast.walk(fi.node):
                    if isinstance(n, ast.Attribute) and isinstance(n.ctx, ast.Store) and n.attr in FIELDS \
                            and isinstance(n.value, ast.Name) and n.value.id == "self":
                        writes = True
                if writes:
                    out.append((fi.qualname, ci.name))
    return out


SITES = _discover()
CALLS = {"self.notify_listeners": notify, "*.notify_listeners": notify}
TYPES = {"Tag.simulated": "bool", "Tag.name": "str", "tick_time": "float", "increment_time": "float"}
CONTRACTS = [Contract(target=q, types=dict(TYPES, self=cls), self_class=cls, calls=CALLS, on_exit=on_exit,
                      options={"lenient": True, "protected_prefixes": (), "default_unroll": 2, "opaque_subscript": True, "qf": True})
             for q, cls in SITES]
TARGETS = [c.key for c in CONTRACTS]
MAX_PATHS = 300


def replay(obligation, witness):
    """Native oracle: concrete calls on the real tag class, comparing the reported value before/after with the listener's record."""
    import contracts.c36_native as n
    meth = obligation.split("/")[1]
    cls, m = meth.split(".")[-2], meth.split(".")[-1]
    if cls in ("BlockTimeTag", "ScopeTimeTag") and m in ("on_tick",):
        r = n.ALL[cls]()
    else:
        r = n.generic(cls, m)
        if not r.get("violated") and cls in n.ALL:
            r = n.ALL[cls]()
    return {"confirmed": bool(r.get("violated")), **r}


REPLAY_WITHOUT_WITNESS = True
LEVEL = "other"
BOUNDED = ["loops inside tag methods (timer stacks, accumulators) unrolled twice; calls the executor cannot follow are opaque (lenient mode)"]
TRUSTED = ["notify_listeners(name) makes every listener record the name (dispatch loop); Engine.notify_tag_updates / collect_tag_updates (queue, de-duplication) are not under contract",
           "calls the executor cannot follow (unit conversion, tracing, formatting) are opaque and assumed not to write the tag's value fields",
           "a value is `changed` when the stored object differs (identity of the boxed value)"]
CLAUSES = {"between two reports every tag whose value changed appears in the next report": "per-method notification obligation on every value-writing method of every Tag class (mechanism); the queue/report building is NOT covered",
           "a report never contains a tag twice; a snapshot contains every tag": "NOT covered"}
EXPLANATION = "Mechanism-level partial claim: a generated notification obligation per value-writing tag method."
