"""C36 — Every changed tag is reported with its latest value (mechanism: change notification).

The engine's reports are built from the change listeners (Engine.notify_tag_updates -> tag_updates queue -> collect_tag_updates).
Contract generated for EVERY method of Tag and of every Tag subclass in tags.py / tags_impl.py / archiver.py that assigns
self.value / self.simulated_value / self.simulated (discovered on every run):
    if the observable value (simulated_value if simulated else value) differs at exit from entry, the listeners were notified with the
    tag's own name during the call.
"""
import ast
import os
import z3
from pyvc.spec import Contract, LoopSpec
from pyvc.smt import Val, RID, BV, mk_bool
from pyvc.state import SV
from pyvc.repo import Ty, Repo

PROP = "C36"
MODS = ["openpectus.lang.exec.tags", "openpectus.lang.exec.tags_impl", "openpectus.engine.archiver"]
FIELDS = ("value", "simulated_value", "simulated")


def notify(ctx, args, kwargs):
    """ChangeSubject.notify_listeners(name): every registered listener records `name` as changed (dispatch loop, assumed)"""
    s = ctx.ex.top_frame.lookup("self")
    ok = args[0].term == ctx.st.read("name", RID(s.term))
    prev = ctx.ghost.get("notified_own_name", z3.BoolVal(False))
    ctx.ghost["notified_own_name"] = z3.Or(prev, ok)
    return ctx.none()


notify.modifies = []


def _obs(st, heap, s):
    from pyvc.smt import field_sort
    rd = lambda f: z3.Select(heap[f] if f in heap else z3.Const(f"H0!{f}", field_sort(f)), RID(s.term))
    sim = rd("simulated")
    return z3.If(z3.And(Val.is_VBool(sim), Val.bv(sim)), rd("simulated_value"), rd("value"))


def on_exit(ctx, kind, result):
    if kind != "return":
        return
    st = ctx.st
    s = ctx.local("self")
    before = _obs(st, ctx.fr.entry_heap, s)
    after = _obs(st, st.heap, s)
    notified = ctx.ghost.get("notified_own_name", z3.BoolVal(False))
    ctx.check("observable-value-changed=>listeners-notified-with-the-tags-name", z3.Implies(before != after, notified), "postcondition")


def _discover():
    repo = Repo(os.environ.get("VERIF_REPO", "/repo"))
    out = []
    for mod in MODS:
        mi = repo.module(mod)
        for ci in mi.classes.values():
            if ci.name != "Tag" and not ci.is_subclass_of(repo, "Tag"):
                continue
            for fi in ci.methods.values():
                if fi.name == "__init__":
                    continue
                writes = False
                for n in ast.walk(fi.node):
                    if isinstance(n, ast.Attribute) and isinstance(n.ctx, ast.Store) and n.attr in FIELDS \
                            and isinstance(n.value, ast.Name) and n.value.id == "self":
                        writes = True
                if writes:
                    out.append((fi.qualname, ci.name))
    return out


SITES = _discover()
CALLS = {"self.notify_listeners": notify, "*.notify_listeners": notify}
TYPES = {"Tag.simulated": "bool", "Tag.name": "str", "tick_time": "float", "increment_time": "float"}
CONTRACTS = [Contract(target=q, types=dict(TYPES, self=cls), self_class=cls, calls=CALLS, on_exit=on_exit,
                      options={"lenient": True, "protected_prefixes": (), "default_unroll": 2, "opaque_subscript": True, "qf": True})
             for q, cls in SITES]
TARGETS = [c.key for c in CONTRACTS]
MAX_PATHS = 300


def replay(obligation, witness):
    """Native oracle: concrete calls on the real tag class, comparing the reported value before/after with the listener's record."""
    import contracts.c36_native as n
    if "notify_tag_updates" in obligation or "notify_change" in obligation:
        r = n.changed_tags_are_queued()
        return {"confirmed": bool(r.get("violated")), **r}
    if "collect_tag_updates" in obligation or "notify_all_tags" in obligation:
        r = n.report_building()
        return {"confirmed": bool(r.get("violated")), **r}
    meth = obligation.split("/")[1]
    cls, m = meth.split(".")[-2], meth.split(".")[-1]
    if cls in ("BlockTimeTag", "ScopeTimeTag") and m in ("on_tick",):
        r = n.ALL[cls]()
    else:
        r = n.generic(cls, m)
        if not r.get("violated") and cls in n.ALL:
            r = n.ALL[cls]()
    return {"confirmed": bool(r.get("violated")), **r}


REPLAY_WITHOUT_WITNESS = True
LEVEL = "other"
BOUNDED = ["loops inside tag methods (timer stacks, accumulators) unrolled twice; calls the executor cannot follow are opaque (lenient mode)"]
TRUSTED = ["notify_listeners(name) makes every listener record the name (dispatch loop); Engine.notify_tag_updates / collect_tag_updates (queue, de-duplication) are not under contract",
           "calls the executor cannot follow (unit conversion, tracing, formatting) are opaque and assumed not to write the tag's value fields",
           "a value is `changed` when the stored object differs (identity of the boxed value)"]
CLAUSES = {"between two reports every tag whose value changed appears in the next report": "per-method notification obligation on every value-writing method of every Tag class (mechanism); the step from notification to the queue (listener set, notify_tag_updates) is NOT covered",
           "a report never contains a tag twice; a snapshot contains every tag": "collect_tag_updates (both variants) + Engine.notify_all_tags, proved without bound (queue as ghost list)"}
EXPLANATION = "Mechanism-level partial claim: a generated notification obligation per value-writing tag method."


# =====================================================================================================================================
# Report building: EngineMessageBuilder.collect_tag_updates (the queue is modelled as a list object hung on the Queue: get_nowait pops
# the head or raises Empty, put appends)
# =====================================================================================================================================
from pyvc import heapops as _H                     # noqa: E402
from pyvc.smt import NONE as _NONE, mk_ref as _mk_ref   # noqa: E402
B = "openpectus.engine.engine_message_builder:EngineMessageBuilder."
Q = "self.engine.ghost_pending"


def _pending(ctx):
    return ctx.spec(Q)


def q_get_nowait(ctx, args, kwargs):
    """Queue.get_nowait(): removes and returns the oldest pending item, raises queue.Empty when none is pending"""
    lst = _pending(ctx)
    st = ctx.st
    n = _H.list_len(st, RID(lst.term))
    if ctx.decide(n <= 0, "queue empty"):
        ctx.raise_("Empty", "queue empty")
    return ctx.ex.call_method_builtin(lst, "pop", [ctx.int(0)], {}, ctx.fr, ctx.node)


q_get_nowait.modifies = ["$items", "$len"]


def q_noop(ctx, args, kwargs):
    """Queue.task_done(): bookkeeping only"""
    return ctx.none()


q_noop.modifies = []


def as_readonly(ctx, args, kwargs):
    """Tag.as_readonly(): an immutable copy carrying the tag's name and the value currently reported (simulated value while simulated)"""
    t = ctx.ex.ev(ctx.node.func.value, ctx.fr)
    st = ctx.st
    obs = _obs(st, st.heap, t)
    return ctx.new_object("TagValue", name=ctx.read(t, "name", "str"), value=SV(obs, None))


as_readonly.modifies = []


def to_model(ctx, args, kwargs):
    """to_model_tag(v): protocol TagValue with the same name and value (Decimal values become floats: not modelled, values are opaque)"""
    v = args[0]
    return ctx.new_object("TagValue", name=ctx.read(v, "name", "str"), value=ctx.read(v, "value", None))


to_model.modifies = []


def notify_all(ctx, args, kwargs):
    """Engine.notify_all_tags() under its contract below: every tag of the engine (ghost list `ghost_all_tags`) is pending afterwards"""
    fi = ctx.ex.repo.func("openpectus.engine.engine:Engine.notify_all_tags")
    eng = ctx.spec("self.engine")
    return ctx.ex.call_function(fi, [], {}, ctx.fr, eng, ctx.node)


notify_all.modifies = ["$items", "$len", "tick_time"]
CT = {"self": "EngineMessageBuilder", "EngineMessageBuilder.engine": "Engine", "Engine.ghost_pending": "list[Tag]",
      "tags": "dict[str, TagValue]", "Tag.name": "str", "TagValue.name": "str", "snapshot": "bool", "Tag.simulated": "bool",
      "Engine.ghost_all_tags": "list[Tag]"}
OLDQ = f"old({Q})"
KEYED = "all(tags[k].name == k for k in tags)"
collect = Contract(
    target=B + "collect_tag_updates", types=CT, raises={},
    calls={"self.engine.tag_updates.get_nowait": q_get_nowait, "self.engine.tag_updates.task_done": q_noop, "*.as_readonly": as_readonly,
           "to_model_tag": to_model, "self.engine.notify_all_tags": notify_all},
    requires=["not snapshot", f"{Q} is not None",
              # tag names identify tags (TagCollection keys; system and uod tag names are disjoint): pending entries with one name are one tag
              f"all(implies({Q}[i].name == {Q}[j].name, {Q}[i] is {Q}[j]) for i in range(len({Q})) for j in range(len({Q})))"],
    ensures=[("lemma:the-report-lists-the-dictionary-values-in-order", "len(result) == len(tags) and all(result[i] is tags[key_at(tags, i)] for i in range(len(result)))"),
             ("lemma:report-names-are-the-dictionary-keys", "all(result[i].name == key_at(tags, i) for i in range(len(result)))"),
             ("lemma:the-ith-key-sits-at-position-i", "all(pos_of(tags, key_at(tags, i)) == i for i in range(len(tags)))"),
             ("lemma:listed-keys-are-members", "all(has_key(tags, key_at(tags, i)) for i in range(len(tags)))"),
             ("lemma:members-are-strings", "all(is_instance(k, 'str') for k in tags)"),
             ("lemma:dictionary-keys-are-strings", "all(is_instance(key_at(tags, i), 'str') for i in range(len(tags)))"),
             ("lemma:dictionary-keys-are-pairwise-distinct-objects", "all(implies(i < j, key_at(tags, i) is not key_at(tags, j)) for i in range(len(tags)) for j in range(len(tags)))"),
             ("lemma:dictionary-keys-are-pairwise-distinct", "all(implies(i < j, key_at(tags, i) != key_at(tags, j)) for i in range(len(tags)) for j in range(len(tags)))"),
             ("a-report-never-contains-a-tag-twice", "all(implies(i < j, result[i].name != result[j].name) for i in range(len(result)) for j in range(len(result)))"),
             ("every-queued-tag-appears-in-the-report", f"all(any(r.name == at_entry_q(j).name for r in result) for j in range(at_entry_qlen()))"),
             ("every-queued-tag-is-reported-with-the-value-it-has-now",
              "all(any(r.name == at_entry_q(j).name and r.value is OBS(at_entry_q(j)) for r in result) for j in range(at_entry_qlen()))"),
             ("the-queue-is-drained", f"len({Q}) == 0")],
    loops={"while True": LoopSpec(
        invariant=["wf(tags)", "all(is_instance(k, 'str') for k in tags)", KEYED, "all(allocated(tags[k]) for k in tags)", f"len({Q}) + idx == at_entry_qlen()",
                   f"all({Q}[j] is at_entry_q(j + idx) for j in range(len({Q})))",
                   "all(has_key(tags, at_entry_q(j).name) for j in range(idx))",
                   "all(tags[at_entry_q(j).name].value is OBS(at_entry_q(j)) for j in range(idx))",
                   "all(implies(at_entry_q(i).name == at_entry_q(j).name, at_entry_q(i) is at_entry_q(j)) for i in range(at_entry_qlen()) for j in range(at_entry_qlen()))"],
        frame={"$dhas": ["tags"], "$dval": ["tags"], "$dcnt": ["tags"], "$dord": ["tags"], "$dpos": ["tags"], "$items": [Q], "$len": [Q]})})


def at_entry_q(ctx, j):
    from pyvc.smt import IV, field_sort
    lst = ctx.spec(Q)
    le = getattr(ctx.ex.top_frame, "loop_entry", None)
    h0 = le[0] if le else ctx.ex.top_frame.entry_heap      # the queue as it was when the draining loop was entered
    items0 = h0.get("$items", z3.Const("H0!$items", field_sort("$items")))
    return SV(z3.Select(z3.Select(items0, RID(lst.term)), IV(j.term)), Ty("Tag"))


def at_entry_qlen(ctx):
    from pyvc.smt import field_sort, mk_int
    lst = ctx.spec(Q)
    le = getattr(ctx.ex.top_frame, "loop_entry", None)
    h0 = le[0] if le else ctx.ex.top_frame.entry_heap
    len0 = h0.get("$len", z3.Const("H0!$len", field_sort("$len")))
    return SV(mk_int(z3.Select(len0, RID(lst.term))), Ty("int"))


def allocated(ctx, x):
    """x is a reference to an object that exists now (allocated before the current allocation point)"""
    st = ctx.st
    return SV(mk_bool(z3.And(Val.is_VRef(x.term), RID(x.term) >= 0, RID(x.term) < st.alloc)), Ty("bool"))


def wf(ctx, d):
    """representation invariant of the dict encoding (keys <-> positions bijection, count): must be carried through a loop havoc"""
    return SV(mk_bool(_H.dict_wf(ctx.st, RID(d.term))), Ty("bool"))


def pos_of(ctx, d, k):
    from pyvc.smt import mk_int
    return SV(mk_int(z3.Select(ctx.st.read("$dpos", RID(d.term)), k.term)), Ty("int"))


def OBS(ctx, t):
    """the value a tag reports now: its simulated value while simulated, else its value"""
    return SV(_obs(ctx.st, ctx.st.heap, t), None)


SPEC_FUNCS = {"OBS": OBS, "pos_of": pos_of, "at_entry_q": at_entry_q, "at_entry_qlen": at_entry_qlen, "allocated": allocated, "wf": wf}
# ---- snapshot: Engine.notify_all_tags puts every tag of the engine into the queue ---------------------------------------------------
ALL = "self.ghost_all_tags"
PEND = "self.ghost_pending"


def all_tags(ctx, args, kwargs):
    """Engine._iter_all_tags(): the system tags followed by the uod tags (itertools.chain over the two collections), as one ghost list"""
    return ctx.spec(ALL)


def q_put(ctx, args, kwargs):
    """Queue.put(x): x becomes the newest pending item"""
    lst = ctx.spec(PEND)
    return ctx.ex.call_method_builtin(lst, "append", [args[0]], {}, ctx.fr, ctx.node)


all_tags.modifies = []
q_put.modifies = ["$items", "$len"]
ET = {"self": "Engine", "Engine.ghost_all_tags": "list[Tag]", "Engine.ghost_pending": "list[Tag]", "Tag.tick_time": "float | None", "Engine._tick_time": "float"}
APPENDED = (f"len({PEND}) == old(len({PEND})) + len({ALL}) and all({PEND}[i] is old({PEND}[i]) for i in range(old(len({PEND})))) and "
            f"all({PEND}[i] is {ALL}[i - old(len({PEND}))] for i in range(old(len({PEND})), len({PEND})))")
notify_all_c = Contract(
    target="openpectus.engine.engine:Engine.notify_all_tags", types=ET, raises={}, calls={"self._iter_all_tags": all_tags, "self.tag_updates.put": q_put},
    requires=[f"{PEND} is not None and {ALL} is not None and {PEND} is not {ALL}"],
    ensures=[("every-tag-of-the-engine-is-appended-to-the-pending-queue-in-order", APPENDED)],
    modifies={"$items": [PEND], "$len": [PEND], "tick_time": ["*"]},
    loops={"for tag in self._iter_all_tags()": LoopSpec(
        invariant=[f"len({PEND}) == old(len({PEND})) + idx", f"all({PEND}[i] is old({PEND}[i]) for i in range(old(len({PEND}))))",
                   f"all({PEND}[i] is {ALL}[i - old(len({PEND}))] for i in range(old(len({PEND})), len({PEND})))"],
        frame={"$items": [PEND], "$len": [PEND], "tick_time": ["*"]})})

EA = "self.engine.ghost_all_tags"
UNIQ = lambda xs, ys: f"all(implies({xs}[i].name == {ys}[j].name, {xs}[i] is {ys}[j]) for i in range(len({xs})) for j in range(len({ys})))"
collect_snapshot = Contract(
    target=B + "collect_tag_updates", variant="snapshot", types=CT, raises={}, calls=collect.calls,
    requires=["snapshot", f"{Q} is not None and {EA} is not None and {Q} is not {EA}", UNIQ(Q, Q), UNIQ(Q, EA), UNIQ(EA, EA)],
    ensures=[e for e in collect.ensures if not e[0].startswith("every-queued")] +
            [("lemma:the-engine-tags-sat-behind-the-earlier-pending-entries",
              f"at_entry_qlen() == old(len({Q})) + len({EA}) and all(at_entry_q(old(len({Q})) + j) is {EA}[j] for j in range(len({EA})))"),
             ("lemma:every-tag-of-the-engine-was-pending-when-the-draining-loop-started",
              f"all(any(at_entry_q(i) is {EA}[j] for i in range(at_entry_qlen())) for j in range(len({EA})))"),
             ("every-queued-tag-appears-in-the-report", "all(any(r.name == at_entry_q(j).name for r in result) for j in range(at_entry_qlen()))"),
             ("a-snapshot-report-contains-every-tag", f"all(any(r.name == {EA}[j].name for r in result) for j in range(len({EA})))"),
             ("every-tag-is-reported-with-the-value-it-has-now", f"all(any(r.name == {EA}[j].name and r.value is OBS({EA}[j]) for r in result) for j in range(len({EA})))")],
    loops={"while True": LoopSpec(
        invariant=[f"at_entry_qlen() == old(len({Q})) + len({EA})",
                   f"all(at_entry_q(i) is old({Q}[i]) for i in range(old(len({Q}))))",
                   f"all(at_entry_q(i) is {EA}[i - old(len({Q}))] for i in range(old(len({Q})), at_entry_qlen()))",
                   f"all(implies(at_entry_q(i).name == at_entry_q(j).name, at_entry_q(i) is at_entry_q(j)) for i in range(old(len({Q}))) for j in range(old(len({Q}))))",
                   f"all(implies(at_entry_q(i).name == at_entry_q(j).name, at_entry_q(i) is at_entry_q(j)) for i in range(old(len({Q}))) for j in range(old(len({Q})), at_entry_qlen()))",
                   f"all(implies(at_entry_q(i).name == at_entry_q(j).name, at_entry_q(i) is at_entry_q(j)) for i in range(old(len({Q})), at_entry_qlen()) for j in range(old(len({Q})), at_entry_qlen()))"]
        + collect.loops["while True"].invariant,
        frame=collect.loops["while True"].frame)})

CONTRACTS = CONTRACTS + [collect, notify_all_c, collect_snapshot]
TARGETS = [c.key for c in CONTRACTS]


def _nat_report():
    import contracts.c36_native as n
    r = n.report_building()
    return {"ok": not r["violated"], "observation": r}


def _nat_queued():
    import contracts.c36_native as n
    r = n.changed_tags_are_queued()
    return {"ok": not r["violated"], "observation": r}


NATIVE = [("native:report-building-on-the-real-engine", _nat_report), ("native:changed-tags-are-queued-on-the-real-engine", _nat_queued)]
BOUNDED = BOUNDED + ["one native scenario through the real Engine and EngineMessageBuilder (duplicate queue entry, value changed after queuing, snapshot): bounded, not counted"]


# ---- from `notified` to `queued`: ChangeListener.notify_change and Engine.notify_tag_updates --------------------------------------------
LST = "openpectus.lang.exec.tags:ChangeListener."
listener = Contract(target=LST + "notify_change", types={"self": "ChangeListener", "elm": "str", "ChangeListener._changes": "set[str]"}, raises={},
                    ensures=[("the-name-is-recorded", "elm in self._changes"), ("earlier-names-are-kept", "all(x in self._changes for x in old(self._changes))")])


def changes_of(ctx, base):
    """ChangeListener.changes (property): list(self._changes) — the recorded names, each once"""
    import ast as _ast
    from pyvc.executor import Frame
    nf = Frame(ctx.fr.func, ctx.fr.module, None, parent_env=ctx.fr)
    nf.locals["l_"] = base
    return ctx.ex.ev(_ast.parse("list(l_._changes)", mode="eval").body, nf)


def coll_get(ctx, args, kwargs):
    """TagCollection.__getitem__(name): the tag registered under that name (GET_TAG(collection, name)); KeyError is not modelled: a name
    recorded by the collection's own listener is a name of the collection"""
    coll = ctx.ex.ev(ctx.node.func.value, ctx.fr) if hasattr(ctx.node, "func") else None
    return ctx.fresh("tag", "Tag")


GTf = z3.Function("GET_TAG", Val, Val, Val)


def subscript_tag(ctx, node):
    """collection[name] for a TagCollection: GET_TAG(collection, name), a Tag"""
    coll = ctx.ex.ev(node.value, ctx.fr)
    key = ctx.ex.ev(node.slice, ctx.fr)
    out = SV(GTf(coll.term, key.term), Ty("Tag"))
    ctx.ex.assume_type(out.term, out.ty, ctx.fr)
    return out


def GT(ctx, coll, key):
    return SV(GTf(coll.term, key.term), Ty("Tag"))


SPEC_FUNCS["GT"] = GT


def emit(ctx, args, kwargs):
    """emitter.emit_on_connection_status_change: event dispatch, no effect on the queue"""
    return ctx.none()


emit.modifies = []
NT = {"self": "Engine", "Engine._system_listener": "ChangeListener", "Engine._uod_listener": "ChangeListener", "ChangeListener._changes": "set[str]",
      "Engine.ghost_pending": "list[Tag]", "tag_name": "str"}
SYS0 = "old(self._system_listener._changes)"
UOD0 = "old(self._uod_listener._changes)"
notify_updates = Contract(
    target="openpectus.engine.engine:Engine.notify_tag_updates", types=NT, raises=None,
    calls={"self.tag_updates.put": q_put, "self._emitter.emit_on_connection_status_change": emit},
    options={"subscript_handlers": {"self._system_tags[tag_name]": subscript_tag, "self.uod.tags[tag_name]": subscript_tag,
                                    "self._system_tags[SystemTagName.CONNECTION_STATUS]": subscript_tag},
             "property_handlers": {"ChangeListener.changes": changes_of}, "lenient": True, "protected_prefixes": ()},
    requires=[f"{PEND} is not None", "self._system_listener is not self._uod_listener and self._system_listener._changes is not self._uod_listener._changes"],
    ensures=[("every-changed-system-tag-is-queued", f"all(any({PEND}[i] is GT(self._system_tags, n) for i in range(len({PEND}))) for n in {SYS0})"),
             ("every-changed-uod-tag-is-queued", f"all(any({PEND}[i] is GT(self.uod.tags, n) for i in range(len({PEND}))) for n in {UOD0})"),
             ("both-change-records-are-cleared", "len(self._system_listener._changes) == 0 and len(self._uod_listener._changes) == 0")],
    loops={"for tag_name in self._system_listener.changes": LoopSpec(
               invariant=[f"all(any({PEND}[i] is GT(self._system_tags, key_at(self._system_listener._changes, j)) for i in range(len({PEND}))) for j in range(idx))"],
               frame={"$items": [PEND], "$len": [PEND]}),
           "for tag_name in self._uod_listener.changes": LoopSpec(
               invariant=[f"all(any({PEND}[i] is GT(self._system_tags, n) for i in range(len({PEND}))) for n in {SYS0})",
                          f"all(any({PEND}[i] is GT(self.uod.tags, key_at(self._uod_listener._changes, j)) for i in range(len({PEND}))) for j in range(idx))"],
               frame={"$items": [PEND], "$len": [PEND]})})
CONTRACTS = CONTRACTS + [listener, notify_updates]
TARGETS = [c.key for c in CONTRACTS]
