"""Native scenario for C08: a recording hardware layer; after engine start (no run yet) the safe value must have been written."""
import logging


def safe_value_written_at_engine_start():
    from openpectus.lang.exec.uod import UodBuilder
    from openpectus.lang.exec.tags import Tag
    from openpectus.engine.hardware import HardwareLayerBase, RegisterDirection
    from openpectus.test.engine.utility_methods import EngineTestRunner
    logging.disable(logging.CRITICAL)

    class RecHW(HardwareLayerBase):
        def __init__(self):
            super().__init__()
            self.writes, self.values = [], {}

        def read(self, r):
            return self.values.get(r.name, 0)

        def write(self, v, r):
            self.writes.append((r.name, v))
            self.values[r.name] = v

        def connect(self):
            self._is_connected = True

        def disconnect(self):
            self._is_connected = False
    hw = RecHW()

    def create_uod():
        uod = (UodBuilder().with_instrument("DemoUod").with_author("Demo", "demo@example.org").with_filename(__file__)
               .with_hardware(hw).with_location("loc").with_hardware_register("V1", RegisterDirection.Both, safe_value=7)
               .with_tag(Tag("V1", value=1)).build())
        uod.hwl.connect()
        return uod
    try:
        runner = EngineTestRunner(create_uod, "Mark: A\nWait: 1s\n", fail_on_log_error=False)
        with runner.run() as instance:
            e = instance.engine
            at_start = list(hw.writes)
            e.tick(1.0, 0.1)
            e.tick(1.1, 0.1)
            return {"violated": hw.values.get("V1") != 7, "scenario": "engine started, no run started, two idle ticks; register V1 has safe_value=7",
                    "writes_at_engine_start": at_start, "hardware_value_of_V1": hw.values.get("V1"), "tag_value": e.uod.tags["V1"].get_value()}
    finally:
        logging.disable(logging.NOTSET)


if __name__ == "__main__":
    print(safe_value_written_at_engine_start())


def error_pause_leaves_outputs_unsafe():
    """a method error during a run pauses the engine (System State Paused): the output with a safe value must carry it on the hardware"""
    from openpectus.lang.exec.uod import UodBuilder, UodCommand
    from openpectus.lang.exec.tags import Tag
    from openpectus.engine.hardware import HardwareLayerBase, RegisterDirection
    from openpectus.test.engine.utility_methods import EngineTestRunner
    logging.disable(logging.CRITICAL)

    class RecHW(HardwareLayerBase):
        def __init__(self):
            super().__init__()
            self.values = {}

        def read(self, r):
            return self.values.get(r.name, 0)

        def write(self, v, r):
            self.values[r.name] = v

        def connect(self):
            self._is_connected = True

        def disconnect(self):
            self._is_connected = False
    hw = RecHW()

    def open_valve(cmd: UodCommand, **kw):
        cmd.context.tags["V1"].set_value(1, 0.0)
        cmd.set_complete()

    def boom(cmd: UodCommand, **kw):
        raise RuntimeError("boom")

    def create_uod():
        uod = (UodBuilder().with_instrument("DemoUod").with_author("Demo", "demo@example.org").with_filename(__file__)
               .with_hardware(hw).with_location("loc").with_hardware_register("V1", RegisterDirection.Both, safe_value=7)
               .with_tag(Tag("V1", value=0)).with_command(name="Open", exec_fn=open_valve).with_command(name="Boom", exec_fn=boom).build())
        uod.hwl.connect()
        return uod
    try:
        runner = EngineTestRunner(create_uod, "Open\nMark: A\nBoom\nMark: B\n", fail_on_log_error=False)
        with runner.run() as instance:
            e = instance.engine
            instance.start()
            for _ in range(12):
                try:
                    instance.run_ticks(1)
                except Exception:
                    pass
            state = str(e.tags["System State"].get_value())
            return {"violated": state == "Paused" and hw.values.get("V1") != 7, "system_state": state, "paused_flag": e._runstate_paused,
                    "hardware_value_of_V1": hw.values.get("V1"), "safe_value": 7,
                    "scenario": "run: Open sets V1=1, then command Boom raises -> error pause; several ticks later V1 on the hardware"}
    finally:
        logging.disable(logging.NOTSET)
