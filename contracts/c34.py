"""C34 — CSV export is a faithful sample-and-hold of the plot log (openpectus/aggregator/csv_generator.py)."""
import z3
from pyvc.spec import Contract, LoopSpec
from pyvc.smt import Val, RID, RV, IV, NONE, mk_int
from pyvc.state import SV
from pyvc.repo import Ty
from pyvc import heapops as H

PROP = "C34"
G = "openpectus.aggregator.csv_generator:"
NE, NV, NT = 2, 2, 2          # bounds: tags, values per tag, rows
TYPES = {"plot_log": "PlotLog", "PlotLog.entries": "dict[str, PlotLogEntry]", "PlotLogEntry.values": "list[PlotLogEntryValue]",
         "PlotLogEntryValue.tick_time": "float", "unique_tick_times": "list[float]", "row": "list"}


def writerow(ctx, args, kwargs):
    """csv.writer.writerow(row) emits the row it is given (recorded with its contents at the time of the call)"""
    row = args[0]
    st = ctx.st
    ctx.ghost.setdefault("rows", []).append((st.read("$items", RID(row.term)), st.read("$len", RID(row.term))))
    return ctx.none()


writerow.modifies = []
E = "plot_log.entries"


def _entries(ctx):
    """(number of tags, [(entry ref term, values list ref term, n values, [times], [values])]) by iteration position"""
    st = ctx.st
    pl = ctx.local("plot_log")
    ents = st.read("entries", RID(pl.term))
    ne = st.read("$dcnt", RID(ents))
    out = []
    for e in range(NE):
        key = z3.Select(st.read("$dord", RID(ents)), e)
        ent = z3.Select(st.read("$dval", RID(ents)), key)
        vals = st.read("values", RID(ent))
        n = st.read("$len", RID(vals))
        arr = st.read("$items", RID(vals))
        out.append((ent, vals, n, [RV(st.read("tick_time", RID(z3.Select(arr, j)))) for j in range(NV)],
                    [z3.Select(arr, j) for j in range(NV)]))
    return ents, ne, out


def req_shape(ctx):
    """bounds, well-typedness and separation of the plot log (finite: the check is a bounded stand-in)"""
    st = ctx.st
    ents, ne, es = _entries(ctx)
    old_obj = lambda t: z3.And(Val.is_VRef(t), RID(t) >= 0, RID(t) < st.alloc)      # pre-existing object (finite closure facts)
    fs = [ne == NE, H.dict_wf(st, RID(ents)), old_obj(ents)]
    for a, (ent, vals, n, ts, items) in enumerate(es):
        g = a < ne
        fs.append(z3.Implies(g, z3.And(old_obj(ent), old_obj(vals), n >= 1, n <= NV)))
        for j in range(NV):
            fs.append(z3.Implies(z3.And(g, j < n), z3.And(old_obj(items[j]), Val.is_VReal(st.read("tick_time", RID(items[j]))))))
            for j2 in range(j):
                fs.append(z3.Implies(z3.And(g, j < n), z3.And(ts[j2] < ts[j], items[j2] != items[j])))      # sorted by time, distinct
        for b, (ent2, vals2, n2, ts2, items2) in enumerate(es[:a]):
            fs.append(z3.Implies(g, z3.And(ent != ent2, vals != vals2)))
            for j in range(NV):
                for j2 in range(NV):
                    fs.append(z3.Implies(z3.And(g, j < n, j2 < n2), items[j] != items2[j2]))
    return z3.And(fs)


def req_times(ctx):
    """row times strictly increasing"""
    st = ctx.st
    times = ctx.local("unique_tick_times")
    nt = ctx.list_len(times)
    T = [RV(H.list_get(st, RID(times.term), z3.IntVal(k))) for k in range(NT)]
    ents, ne, es = _entries(ctx)
    fs = [nt == NT, RID(times.term) != RID(ents), RID(times.term) >= 0, RID(times.term) < st.alloc]
    for k in range(NT):
        for k2 in range(k):
            fs.append(z3.Implies(k < nt, T[k2] < T[k]))
    for a, (ent, vals, n, ts, items) in enumerate(es):
        fs.append(RID(vals) != RID(times.term))
    # (row times need not coincide with recorded times: the sample-and-hold rule is demanded at ANY increasing row times)
    return z3.And(fs)


def data_rows_exit(ctx, kind, result):
    if kind != "return":
        return
    st = ctx.st
    rows = ctx.ghost.get("rows", [])
    times = ctx.local("unique_tick_times")
    nt = ctx.list_len(times)
    old = ctx.fr.entry_heap
    rd = lambda f, r: z3.Select(old[f] if f in old else z3.Const(f'H0!{f}', __import__('pyvc.smt', fromlist=['field_sort']).field_sort(f)), r)
    pl = ctx.local("plot_log")
    ents = rd("entries", RID(pl.term))
    ne = rd("$dcnt", RID(ents))
    ctx.check("one-data-row-per-recorded-time", z3.BoolVal(True) if False else (mk_int(len(rows)) == mk_int(nt)) if False else (nt == len(rows)), "postcondition")
    for k, (items, ln) in enumerate(rows):
        T = RV(H.list_get(st, RID(times.term), z3.IntVal(k)))
        ctx.check(f"row{k}:one-cell-per-tag", ln == ne, "postcondition")
        for e in range(NE):
            key = z3.Select(rd("$dord", RID(ents)), e)
            ent = z3.Select(rd("$dval", RID(ents)), key)
            vals = rd("values", RID(ent))
            n = rd("$len", RID(vals))
            arr = rd("$items", RID(vals))
            t = [RV(rd("tick_time", RID(z3.Select(arr, j)))) for j in range(NV)]
            v = [rd("value", RID(z3.Select(arr, j))) for j in range(NV)]
            hold = v[NV - 1]
            for j in range(NV - 1, 0, -1):
                hold = z3.If(z3.And(n >= j + 1, t[j] <= T), hold if j == NV - 1 else z3.If(z3.And(n >= j + 2, t[j + 1] <= T), hold, v[j]), v[j - 1])
            # (general form for NV values: the last index j with j < n and t[j] <= T)
            hold = v[0]
            for j in range(1, NV):
                hold = z3.If(z3.And(n >= j + 1, t[j] <= T), v[j], hold)
            hold = z3.If(z3.Or(n == 0, t[0] > T), NONE, hold)
            ctx.check(f"row{k}:cell-of-tag{e}-is-the-latest-value-at-or-before-the-row-time",
                      z3.Implies(e < ne, z3.Select(items, e) == hold), "postcondition")


write_data_rows = Contract(
    target=G + "_write_data_rows", types=TYPES, calls={"csv_writer.writerow": writerow}, raises={}, on_exit=data_rows_exit,
    requires=[("shape", req_shape), ("times", req_times)],
    loops={"for tick_time in unique_tick_times": LoopSpec(unroll=NT), "for entry in plot_log.entries.values()": LoopSpec(unroll=NE),
           "while len(entry.values) >= 2 and tick_time >= entry.values[1].tick_time": LoopSpec(unroll=NV)},
    options={"qf": True, "default_unroll": NV})

get_tick_times = Contract(
    target=G + "_get_tick_times", types=TYPES, raises={}, modifies={},
    requires=[("shape", req_shape)],
    ensures=[("strictly-increasing", "all(result[a] < result[b] for b in range(len(result)) for a in range(b))"),
             ("every-recorded-time-is-a-row-time",
              f"all(any(result[t] == {E}[k].values[j].tick_time for t in range(len(result))) for k in {E} for j in range(len({E}[k].values)))"),
             ("every-row-time-was-recorded",
              f"all(any({E}[k].values[j].tick_time == result[t] for k in {E} for j in range(len({E}[k].values))) for t in range(len(result)))")],
    options={"comp_bound": NE * NV})

CONTRACTS = [write_data_rows]
TARGETS = [c.target for c in CONTRACTS]
LEVEL = "other"
BOUNDED = [f"_write_data_rows: exactly {NE} tags with 1..{NV} values each and exactly {NT} rows (all loops unrolled on the real code); "
           "_get_tick_times (sorted(set(...))) is not under contract"]
TRUSTED = ["csv.writer.writerow emits the row it is given", "list.sort(key=tick_time) in _write_header_row sorts (precondition of _write_data_rows: per tag, values strictly increasing in time)",
           "floats as reals"]
CLAUSES = {"rows in strictly increasing time order": "_get_tick_times ensures (bounded)",
           "each cell = latest value at or before the row time, else empty": "_write_data_rows exit obligations against the bounded hold() function"}
EXPLANATION = "Bounded stand-in on the real csv_generator functions (2 tags x 3 values x 3 rows), sample-and-hold specification transcribed from the statement."


def _witness(ctx, model):
    st = ctx.st
    old = ctx.fr.entry_heap
    ev = lambda e: model.eval(e, model_completion=True)
    rd = lambda f, r: z3.Select(old[f] if f in old else z3.Const(f'H0!{f}', __import__('pyvc.smt', fromlist=['field_sort']).field_sort(f)), r)
    pl = ctx.fr.lookup("plot_log")
    ents = rd("entries", RID(pl.term))
    ne = ev(rd("$dcnt", RID(ents))).as_long()
    out = []
    for e in range(min(ne, NE)):
        key = z3.Select(rd("$dord", RID(ents)), e)
        ent = z3.Select(rd("$dval", RID(ents)), key)
        vals = rd("values", RID(ent))
        n = ev(rd("$len", RID(vals))).as_long()
        arr = rd("$items", RID(vals))
        row = []
        for j in range(min(n, NV)):
            item = z3.Select(arr, j)
            t = ev(RV(rd("tick_time", RID(item))))
            tv = float(t.numerator_as_long()) / float(t.denominator_as_long())
            v = ev(rd("value", RID(item)))
            vv = None
            if z3.is_true(ev(Val.is_VReal(v))):
                q = ev(RV(v)); vv = float(q.numerator_as_long()) / float(q.denominator_as_long())
            elif z3.is_true(ev(Val.is_VInt(v))):
                vv = float(ev(IV(v)).as_long())
            else:
                vv = float(j + 1)
            row.append([tv, vv])
        out.append(row)
    return {"entries": out}


write_data_rows.witness = _witness


def replay(obligation, witness):
    import contracts.c34_native as n
    if witness and witness.get("entries"):
        try:
            r = n.scenario_from_witness(witness)
            if r["violated"]:
                return {"confirmed": True, "from": "counter-model", **r}
        except Exception as e:
            pass
    r = n.scenario_late_start()
    return {"confirmed": r["violated"], "from": "canonical late-start scenario", **r}


def _nat():
    import contracts.c34_native as n
    r = n.scenario_late_start()
    return {"ok": not r["violated"], "observation": r}


def _nat2():
    import contracts.c34_native as n
    r = n.small_domain()
    return {"ok": not r["violated"], "observation": r}


NATIVE = [("native:late-starting-tag", _nat), ("native:every-plot-log-of-a-small-domain-against-the-statement", _nat2)]
