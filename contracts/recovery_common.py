"""Shared assumed contracts / helpers for ErrorRecoveryDecorator (C23, C24)."""
import z3
from pyvc.smt import Val, IV, RID, SVs, mk_int, mk_bool, NONE
from pyvc.state import SV
from pyvc.repo import Ty
from pyvc import heapops as H

M = "openpectus.engine.hardware_recovery:ErrorRecoveryDecorator."
S = "ErrorRecoveryState"
TYPES = {
    "self": "ErrorRecoveryDecorator", "r": "Register", "registers": "list[Register]", "values": "list",
    "ErrorRecoveryDecorator.state": "ErrorRecoveryState",
    "ErrorRecoveryDecorator.decorated": "HardwareLayerBase",
    "ErrorRecoveryDecorator.config": "ErrorRecoveryConfig",
    "ErrorRecoveryDecorator.connection_status_tag": "Tag",
    "ErrorRecoveryDecorator.last_success_read_write": "float",
    "ErrorRecoveryDecorator.last_success_connect": "float",
    "ErrorRecoveryDecorator.last_state_reconnect_time": "float",
    "ErrorRecoveryDecorator.reconnect_tick": "int",
    "ErrorRecoveryDecorator.reconnect_count": "int",
    "ErrorRecoveryDecorator.reconnect_backoff_ticks": "list[int]",
    "ErrorRecoveryDecorator.last_known_good_reads": "dict[str, Any]",
    "ErrorRecoveryDecorator.pending_writes": "dict[Register, Any]",
    "ErrorRecoveryDecorator.last_success_writes": "dict[str, Any]",
    "Register._name": "str", "Register._direction": "RegisterDirection", "Register._options": "dict[str, Any]",
    "except_names": "list[str]",
}


def tag_set_value(ctx, args, kwargs):
    """Tag.set_value(v, t) on the Connection Status tag stores v as the tag's value"""
    tag = ctx.spec("self.connection_status_tag")
    ctx.st.write("value", RID(tag.term), args[0].term)
    return ctx.none()


tag_set_value.modifies = ["value"]


def callback_noop(ctx, args, kwargs):
    """engine-supplied recovery callbacks (error/reconnecting/reconnected) neither raise nor touch the decorator"""
    return ctx.none()


callback_noop.modifies = []


def _may_fail(ctx, what, exc="HardwareLayerException"):
    k = ctx.choose(2, what + " outcome")
    ctx.ghost.setdefault("decorated_calls", []).append((what, k == 0))
    if k == 1:
        ctx.raise_(exc, what + " failed")


def dec_read(ctx, args, kwargs):
    """decorated.read(r): returns a value or raises HardwareLayerException"""
    _may_fail(ctx, "decorated.read")
    v = ctx.fresh("hwread", None)
    ctx.ghost["last_dec_read"] = v
    return v


dec_read.modifies = []


def dec_read_batch(ctx, args, kwargs):
    """decorated.read_batch(regs): returns one value per register or raises HardwareLayerException"""
    _may_fail(ctx, "decorated.read_batch")
    out = ctx.new_list(length=ctx.list_len(args[0]), ty="list")
    ctx.ghost["last_dec_read_batch"] = out
    return out


dec_read_batch.modifies = []


def dec_write(ctx, args, kwargs):
    """decorated.write(v, r): succeeds (ghost log) or raises HardwareLayerException"""
    _may_fail(ctx, "decorated.write")
    ctx.ghost.setdefault("hw_writes", []).append(("single", args[0], args[1]))
    return ctx.none()


dec_write.modifies = []


def dec_write_batch(ctx, args, kwargs):
    """decorated.write_batch(vs, rs): succeeds (ghost log) or raises HardwareLayerException"""
    _may_fail(ctx, "decorated.write_batch")
    ctx.ghost.setdefault("hw_writes", []).append(("batch", args[0], args[1]))
    return ctx.none()


dec_write_batch.modifies = []


def dec_connect(ctx, args, kwargs):
    """decorated.connect(): succeeds or raises HardwareLayerException"""
    _may_fail(ctx, "decorated.connect")
    return ctx.none()


dec_connect.modifies = []


def dec_disconnect(ctx, args, kwargs):
    """decorated.disconnect(): succeeds or raises some Exception"""
    _may_fail(ctx, "decorated.disconnect", "Exception")
    return ctx.none()


dec_disconnect.modifies = []

CALLS = {
    "self.connection_status_tag.set_value": tag_set_value,
    "self.error_callback": callback_noop, "self.reconnecting_callback": callback_noop,
    "self.reconnected_callback": callback_noop, "self.reconnect_callback": callback_noop,
    "self.decorated.read": dec_read, "self.decorated.read_batch": dec_read_batch,
    "self.decorated.write": dec_write, "self.decorated.write_batch": dec_write_batch,
    "self.decorated.connect": dec_connect, "self.decorated.disconnect": dec_disconnect,
}

ST = lambda n: f"{S}.{n}"
INV = [
    ("status-tag-matches-state",
     f'(self.connection_status_tag.value == "Disconnected") == (self.state in [{ST("Disconnected")}, {ST("Error")}])'),
    ("status-tag-is-a-status", 'self.connection_status_tag.value == "Disconnected" or self.connection_status_tag.value == "Connected"'),
    ("tick-counter-sane", "self.reconnect_tick >= -1"),
    ("aliasing", "self.last_known_good_reads is not self.pending_writes and self.last_known_good_reads is not self.last_success_writes "
                 "and self.pending_writes is not self.last_success_writes"),
]
