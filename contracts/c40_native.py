"""Native demonstration for C40: does a request entry point of the real Engine run INSIDE the execute phase of a tick (lock held by
the ticking thread), or does it wait for the tick to finish?  Deterministic schedule: the ticking thread, stopped inside
interpreter.tick (so inside `with self._lock`), starts the request on a second thread and waits up to 1 s for it to finish."""
import logging
import threading


def _engine():
    from openpectus.lang.exec.uod import UodBuilder
    from openpectus.test.engine.utility_methods import EngineTestRunner

    def create_uod():
        uod = (UodBuilder().with_instrument("DemoUod").with_author("Demo", "demo@example.org").with_filename(__file__)
               .with_hardware_none().with_location("loc").build())
        uod.hwl.connect()
        return uod
    return EngineTestRunner(create_uod, "Mark: A\nWait: 2s\nMark: B\n", fail_on_log_error=False)


def request_runs_inside_a_tick(kind):
    from openpectus.protocol.models import Method
    logging.disable(logging.CRITICAL)
    try:
        with _engine().run() as instance:
            engine = instance.engine
            instance.start()
            instance.run_ticks(2)
            done = {"inside_tick": None, "error": None}
            real_tick = engine.interpreter.tick

            def request():
                try:
                    if kind == "inject_code":
                        engine.inject_code("Mark: X")
                    elif kind == "set_method":
                        engine.set_method(Method.from_pcode("Mark: A\nWait: 2s\nMark: B\nMark: C\n"))
                    elif kind == "execute_control_command_from_user":
                        engine.execute_control_command_from_user("Pause")
                    elif kind == "cancel_instruction":
                        engine.cancel_instruction("no-such-instance")
                    elif kind == "force_instruction":
                        engine.force_instruction("no-such-instance")
                except Exception as e:      # the outcome of the request does not matter here, only WHEN it ran
                    done["error"] = type(e).__name__

            def tick_with_interleaving(tick_time, tick_number):
                if done["inside_tick"] is None:
                    held = engine._lock.locked()
                    t = threading.Thread(target=request)
                    t.start()
                    t.join(timeout=1.0)
                    done["inside_tick"] = (not t.is_alive()) and held
                    done["thread"] = t
                return real_tick(tick_time, tick_number)
            engine.interpreter.tick = tick_with_interleaving
            instance.run_ticks(1)
            engine.interpreter.tick = real_tick
            if "thread" in done:
                done["thread"].join(timeout=2.0)
            return {"violated": bool(done["inside_tick"]), "request": kind,
                    "what": "the request ran to completion while the ticking thread was inside the execute phase (lock held by the tick)"
                    if done["inside_tick"] else "the request waited for the tick to finish", "request_outcome": done["error"]}
    finally:
        logging.disable(logging.NOTSET)


if __name__ == "__main__":
    for k in ("execute_control_command_from_user", "inject_code", "set_method", "cancel_instruction", "force_instruction"):
        print(request_runs_inside_a_tick(k))
