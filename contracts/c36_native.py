"""Native confirmations for C36: value-writing tag methods that change the reported value without notifying the listeners."""


def _listen(tag):
    from openpectus.lang.exec.tags import ChangeListener
    l = ChangeListener()
    tag.add_listener(l)
    return l


def _obs(tag):
    return tag.as_readonly().value


def block_time():
    from openpectus.lang.exec.tags_impl import BlockTimeTag
    from openpectus.lang.exec.events import BlockInfo
    t = BlockTimeTag(); l = _listen(t)
    t.on_start("run"); t.on_block_start(BlockInfo("A", 1))
    l.clear_changes(); before = _obs(t)
    t.on_tick(10.0, 0.5)
    return {"violated": _obs(t) != before and t.name not in l.changes, "before": before, "after": _obs(t), "changes": l.changes,
            "scenario": "BlockTimeTag.on_tick advances the reported Block Time without notifying"}


def scope_time():
    from openpectus.lang.exec.tags_impl import ScopeTimeTag
    from openpectus.lang.exec.events import ScopeInfo
    t = ScopeTimeTag(); l = _listen(t)
    t.on_start("run")
    info = ScopeInfo("n1", "", "Program")  # type: ignore
    t.on_scope_start(info); t.on_scope_activate(info)
    l.clear_changes(); before = _obs(t)
    t.on_tick(10.0, 0.5)
    return {"violated": _obs(t) != before and t.name not in l.changes, "before": before, "after": _obs(t), "changes": l.changes,
            "scenario": "ScopeTimeTag.on_tick advances the reported Scope Time without notifying"}


def stop_simulation_of_none_valued_tag():
    from openpectus.lang.exec.tags import Tag
    t = Tag("X", value=None); l = _listen(t)
    t.simulate_value(5, 1.0)
    l.clear_changes(); before = _obs(t)
    t.stop_simulation()
    return {"violated": _obs(t) != before and t.name not in l.changes, "before": before, "after": _obs(t), "changes": l.changes,
            "scenario": "stop_simulation on a tag whose real value is None: reported value goes 5 -> None without notifying"}


def simulate_stale_value():
    from openpectus.lang.exec.tags import Tag
    t = Tag("X", value=1); l = _listen(t)
    t.simulate_value(5, 1.0); t.simulated = False      # (as left by a DerivedTag-style internal stop) simulated_value stays 5
    l.clear_changes(); before = _obs(t)
    t.simulate_value(5, 2.0)
    return {"violated": _obs(t) != before and t.name not in l.changes, "before": before, "after": _obs(t), "changes": l.changes,
            "scenario": "simulate_value with the value still stored from an earlier simulation: reported value goes 1 -> 5 without notifying"}


ALL = {"BlockTimeTag": block_time, "ScopeTimeTag": scope_time, "stop_simulation": stop_simulation_of_none_valued_tag, "simulate_value": simulate_stale_value}
if __name__ == "__main__":
    for k, f in ALL.items():
        try:
            print(k, f())
        except Exception as e:
            print(k, "ERROR", repr(e))


def generic(cls_name, method):
    """Try a few concrete calls of <cls>.<method> on the real class; report the first one that changes the reported value silently."""
    import inspect
    import openpectus.lang.exec.tags as T
    import openpectus.lang.exec.tags_impl as TI
    cls = getattr(T, cls_name, None) or getattr(TI, cls_name, None)
    if cls is None:
        return {"violated": False, "note": "class not constructible generically"}
    samples = {"val": [7, 7.5, "a", None], "value": [7, 7.5, "a", None], "unit": [None], "tick_time": [3.0], "increment_time": [0.5],
               "run_id": ["r"], "simulated": [True, False]}
    tried = []
    for setup in ("plain", "simulated"):
        for pick in range(4):
            try:
                t = cls("X", value=1) if cls_name == "Tag" else cls()
            except Exception as e:
                return {"violated": False, "note": f"cannot construct {cls_name}: {e!r}"}
            if setup == "simulated":
                t.simulate_value(5, 1.0)
            l = _listen(t)
            l.clear_changes()
            sig = inspect.signature(getattr(t, method))
            args = []
            for p in sig.parameters.values():
                opts = samples.get(p.name, [None])
                args.append(opts[pick % len(opts)])
            before = _obs(t)
            try:
                getattr(t, method)(*args)
            except Exception as e:
                tried.append(f"{setup}{args}: raised {type(e).__name__}")
                continue
            after = _obs(t)
            tried.append(f"{setup}{args}: {before!r}->{after!r} changes={l.changes}")
            if after != before and t.name not in l.changes:
                return {"violated": True, "scenario": f"{cls_name}.{method}{tuple(args)} after setup `{setup}`", "before": before, "after": after, "changes": l.changes}
    return {"violated": False, "tried": tried}
