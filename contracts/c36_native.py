"""Native confirmations for C36: value-writing tag methods that change the reported value without notifying the listeners."""


def _listen(tag):
    from openpectus.lang.exec.tags import ChangeListener
    l = ChangeListener()
    tag.add_listener(l)
    return l


def _obs(tag):
    return tag.as_readonly().value


def block_time():
    from openpectus.lang.exec.tags_impl import BlockTimeTag
    from openpectus.lang.exec.events import BlockInfo
    t = BlockTimeTag(); l = _listen(t)
    t.on_start("run"); t.on_block_start(BlockInfo("A", 1))
    l.clear_changes(); before = _obs(t)
    t.on_tick(10.0, 0.5)
    return {"violated": _obs(t) != before and t.name not in l.changes, "before": before, "after": _obs(t), "changes": l.changes,
            "scenario": "BlockTimeTag.on_tick advances the reported Block Time without notifying"}


def scope_time():
    from openpectus.lang.exec.tags_impl import ScopeTimeTag
    from openpectus.lang.exec.events import ScopeInfo
    t = ScopeTimeTag(); l = _listen(t)
    t.on_start("run")
    info = ScopeInfo("n1", "", "Program")  # type: ignore
    t.on_scope_start(info); t.on_scope_activate(info)
    l.clear_changes(); before = _obs(t)
    t.on_tick(10.0, 0.5)
    return {"violated": _obs(t) != before and t.name not in l.changes, "before": before, "after": _obs(t), "changes": l.changes,
            "scenario": "ScopeTimeTag.on_tick advances the reported Scope Time without notifying"}


def stop_simulation_of_none_valued_tag():
    from openpectus.lang.exec.tags import Tag
    t = Tag("X", value=None); l = _listen(t)
    t.simulate_value(5, 1.0)
    l.clear_changes(); before = _obs(t)
    t.stop_simulation()
    return {"violated": _obs(t) != before and t.name not in l.changes, "before": before, "after": _obs(t), "changes": l.changes,
            "scenario": "stop_simulation on a tag whose real value is None: reported value goes 5 -> None without notifying"}


def simulate_stale_value():
    from openpectus.lang.exec.tags import Tag
    t = Tag("X", value=1); l = _listen(t)
    t.simulate_value(5, 1.0); t.simulated = False      # (as left by a DerivedTag-style internal stop) simulated_value stays 5
    l.clear_changes(); before = _obs(t)
    t.simulate_value(5, 2.0)
    return {"violated": _obs(t) != before and t.name not in l.changes, "before": before, "after": _obs(t), "changes": l.changes,
            "scenario": "simulate_value with the value still stored from an earlier simulation: reported value goes 1 -> 5 without notifying"}


ALL = {"BlockTimeTag": block_time, "ScopeTimeTag": scope_time, "stop_simulation": stop_simulation_of_none_valued_tag, "simulate_value": simulate_stale_value}
if __name__ == "__main__":
    for k, f in ALL.items():
        try:
            print(k, f())
        except Exception as e:
            print(k, "ERROR", repr(e))


def generic(cls_name, method):
    """Try a few concrete calls of <cls>.<method> on the real class; report the first one that changes the reported value silently."""
    import inspect
    import openpectus.lang.exec.tags as T
    import openpectus.lang.exec.tags_impl as TI
    cls = getattr(T, cls_name, None) or getattr(TI, cls_name, None)
    if cls is None:
        return {"violated": False, "note": "class not constructible generically"}
    samples = {"val": [7, 7.5, "a", None], "value": [7, 7.5, "a", None], "unit": [None], "tick_time": [3.0], "increment_time": [0.5],
               "run_id": ["r"], "simulated": [True, False]}
    tried = []
    for setup in ("plain", "simulated"):
        for pick in range(4):
            try:
                t = cls("X", value=1) if cls_name == "Tag" else cls()
            except Exception as e:
                return {"violated": False, "note": f"cannot construct {cls_name}: {e!r}"}
            if setup == "simulated":
                t.simulate_value(5, 1.0)
            l = _listen(t)
            l.clear_changes()
            sig = inspect.signature(getattr(t, method))
            args = []
            for p in sig.parameters.values():
                opts = samples.get(p.name, [None])
                args.append(opts[pick % len(opts)])
            before = _obs(t)
            try:
                getattr(t, method)(*args)
            except Exception as e:
                tried.append(f"{setup}{args}: raised {type(e).__name__}")
                continue
            after = _obs(t)
            tried.append(f"{setup}{args}: {before!r}->{after!r} changes={l.changes}")
            if after != before and t.name not in l.changes:
                return {"violated": True, "scenario": f"{cls_name}.{method}{tuple(args)} after setup `{setup}`", "before": before, "after": after, "changes": l.changes}
    return {"violated": False, "tried": tried}


def report_building():
    """real Engine + real EngineMessageBuilder: queue some tags (one of them twice, one changed after queuing), build a report and a
    snapshot: no name twice, every queued tag present with its current value, the snapshot contains every tag"""
    import logging
    from openpectus.lang.exec.uod import UodBuilder
    from openpectus.lang.exec.tags import Tag
    from openpectus.test.engine.utility_methods import EngineTestRunner
    from openpectus.engine.engine_message_builder import EngineMessageBuilder
    logging.disable(logging.CRITICAL)

    def create_uod():
        uod = (UodBuilder().with_instrument("DemoUod").with_author("Demo", "demo@example.org").with_filename(__file__)
               .with_hardware_none().with_location("loc").with_tag(Tag("X1", value=1)).with_tag(Tag("X2", value=2)).build())
        uod.hwl.connect()
        return uod
    try:
        with EngineTestRunner(create_uod, "Mark: A\n", fail_on_log_error=False).run() as instance:
            e = instance.engine
            b = EngineMessageBuilder(e, "", True)
            b.collect_tag_updates()                         # drain whatever start-up queued
            x1, x2 = e.uod.tags["X1"], e.uod.tags["X2"]
            for t in (x1, x2, x1):
                e.tag_updates.put(t)
            x2.value = 22                                   # changed after it was queued: the report must carry the latest value
            x1.value = None                                 # a tag that changed TO None is a change like any other
            rep = b.collect_tag_updates()
            names = [t.name for t in rep]
            vals = {t.name: t.value for t in rep}
            if len(names) != len(set(names)):
                return {"violated": True, "what": "a report contains a tag twice", "names": names}
            if set(names) != {"X1", "X2"} or vals.get("X2") != 22 or vals.get("X1") is not None:
                return {"violated": True, "what": "a queued tag is missing from the report or carries a stale value", "report": vals}
            if e.tag_updates.qsize() != 0:
                return {"violated": True, "what": "the queue was not drained", "left": e.tag_updates.qsize()}
            snap = [t.name for t in b.collect_tag_updates(snapshot=True)]
            every = [t.name for t in e._iter_all_tags()]
            missing = [n for n in every if n not in snap]
            if missing or len(snap) != len(set(snap)):
                return {"violated": True, "what": "the snapshot report misses tags or repeats one", "missing": missing, "snapshot_size": len(snap)}
            return {"violated": False, "tags_in_snapshot": len(snap)}
    finally:
        logging.disable(logging.NOTSET)


def changed_tags_are_queued():
    """real Engine: a system tag and a uod tag change through set_value; notify_tag_updates must queue both and clear the records"""
    import logging
    from openpectus.lang.exec.uod import UodBuilder
    from openpectus.lang.exec.tags import Tag, SystemTagName
    from openpectus.test.engine.utility_methods import EngineTestRunner
    logging.disable(logging.CRITICAL)

    def create_uod():
        uod = (UodBuilder().with_instrument("DemoUod").with_author("Demo", "demo@example.org").with_filename(__file__)
               .with_hardware_none().with_location("loc").with_tag(Tag("X1", value=1)).build())
        uod.hwl.connect()
        return uod
    try:
        with EngineTestRunner(create_uod, "Mark: A\n", fail_on_log_error=False).run() as instance:
            e = instance.engine
            e.notify_tag_updates()
            while e.tag_updates.qsize():
                e.tag_updates.get_nowait()
            e.uod.tags["X1"].set_value(5, 1.0)
            e._system_tags[SystemTagName.MARK].set_value("m", 1.0)
            e.notify_tag_updates()
            queued = []
            while e.tag_updates.qsize():
                queued.append(e.tag_updates.get_nowait().name)
            left = (e._system_listener.changes, e._uod_listener.changes)
            bad = "X1" not in queued or str(SystemTagName.MARK) not in [str(q) for q in queued] or any(left)
            return {"violated": bad, "queued": [str(q) for q in queued], "records_left": [list(x) for x in left]}
    finally:
        logging.disable(logging.NOTSET)
