"""C28 — A run survives engine reconnects and aggregator restarts (aggregator.py / data/repository.py).

The RecentEngines table is a ghost heap: the row for engine id s lives in field `ghost_recent` of a ghost slot SLOT(s) (negative,
injective), so frames, modular calls and lemma scripts treat the table like any other heap field. Assumed: the SQL query
`where engine_id == id` returns the row last added under that id (or None); session.add/commit persist the row.

Contracts (all on the real functions):
  (a) RecentEngineRepository.store_recent_engine   the row of engine_data.engine_id afterwards carries the active run's id and start
      (None when no run is active); rows of other engines are untouched; raises ValueError exactly for an empty engine id;
  (b) FromEngine._try_restore_reconnected_engine_data  a row with a run id puts the engine back into THAT run (same run id, same start);
      no row / no run id leaves the run data alone;
  (c) FromEngine.engine_disconnected               a known engine's row is rewritten from its data before the data is dropped;
  (d) FromEngine.register_engine_data              the data is registered under its id and (b) applies;
  (e) Aggregator.shutdown                          every registered engine's row is rewritten (loop invariant);
  lemma  disconnect-then-reregister: after engine_disconnected(id) and register_engine_data(fresh data, same id), the fresh data is in the
      run that was active before, under the same run id (composition of (c) and (d) through their contracts)."""
import z3
from pyvc.spec import Contract, LoopSpec
from pyvc.smt import Val, RID, SVs, BV, NONE, mk_bool, mk_ref, mk_str
from pyvc.state import SV
from pyvc.repo import Ty
from contracts.agg_common import A, BASE_CALLS, TYPES as AGG_TYPES, noop, opaque, disconnect_notification

PROP = "C28"
LEVEL = "proof"
R = "openpectus.aggregator.data.repository:RecentEngineRepository."
SLOT = z3.Function("RECENT_SLOT", z3.StringSort(), z3.IntSort())
SLOT_INV = z3.Function("RECENT_SLOT_INV", z3.IntSort(), z3.StringSort())


def slot(ctx, s):
    return SV(mk_ref(SLOT(SVs(s.term))), Ty("any"))


def table_wf(ctx):
    """every slot of the ghost table holds None or a RecentEngine row whose engine_id is the slot's key (unique column + where clause)"""
    st = ctx.st
    ci = ctx.ex.repo.resolve_class("RecentEngine")
    r = z3.Int("tbl!r")
    cell = z3.Select(st.field("ghost_recent"), r)
    return SV(mk_bool(z3.ForAll([r], z3.Implies(r < 0, z3.Or(cell == NONE, z3.And(Val.is_VRef(cell), RID(cell) >= 0, RID(cell) < st.alloc,
                                                                                 st.read("$type", RID(cell)) == ci.cid,
                                                                                 st.read("engine_id", RID(cell)) == mk_str(SLOT_INV(r))))),
                                patterns=[cell])), Ty("bool"))


SPEC_FUNCS = {"slot": slot, "table_wf": table_wf}


def slot_axioms(ctx):
    s = z3.String("slot!s")
    ctx.assume(z3.ForAll([s], z3.And(SLOT(s) < 0, SLOT_INV(SLOT(s)) == s), patterns=[SLOT(s)]))


def tbl_get(ctx, args, kwargs):
    """get_recent_engine_by_engine_id(id): the row last added under that id, or None (SQL `where engine_id == id`, unique column)"""
    st = ctx.st
    row = st.read("ghost_recent", SLOT(SVs(args[0].term)))
    out = SV(row, Ty("RecentEngine", (), True))
    ctx.assume(z3.Or(row == NONE, z3.And(Val.is_VRef(row), RID(row) >= 0)))
    ctx.ex.assume_type(row, out.ty, ctx.fr)
    ctx.assume(z3.Implies(row != NONE, st.read("engine_id", RID(row)) == args[0].term))
    return out


tbl_get.modifies = []


def tbl_add(ctx, args, kwargs):
    """session.add(row): the row becomes the one stored under its engine id"""
    st = ctx.st
    row = args[0]
    st.write("ghost_recent", SLOT(SVs(st.read("engine_id", RID(row.term)))), row.term)
    return ctx.none()


tbl_add.modifies = ["ghost_recent"]

T = dict(AGG_TYPES, **{"engine_data": "EngineData", "EngineData.engine_id": "str", "EngineData.contributors": "set[Contributor]",
                       "EngineData.required_roles": "set[str]", "EngineData.tags_info": "TagsInfo", "TagsInfo.map": "dict[str, TagValue]",
                       "RunData.run_id": "str", "RecentEngine.run_id": "str | None", "RecentEngine.engine_id": "str",
                       "RecentEngine.contributors": "list[Contributor] | None", "recent_engine": "RecentEngine",
                       "existing": "RecentEngine | None", "contributors": "set[Contributor]"})
ROW = "slot(engine_data.engine_id).ghost_recent"
HAS_RUN = "engine_data._run_data is not None"

# ---- (a) -----------------------------------------------------------------------------------------------------------------------
store = Contract(
    target=R + "store_recent_engine", types=dict(T, self="RecentEngineRepository"), ghost_init=slot_axioms,
    calls={"self.get_recent_engine_by_engine_id": tbl_get, "self.db_session.add": tbl_add, "self.db_session.commit": noop,
           "datetime.now": opaque("datetime")},
    raises={"ValueError": "engine_data.engine_id == ''"}, requires=["table_wf()"],
    ensures=[("table-holds-only-recent-engine-rows", "table_wf()"), ("row-exists-for-this-engine", f"{ROW} is not None and {ROW}.engine_id == engine_data.engine_id"),
             ("active-run-id-and-start-are-stored", f"implies({HAS_RUN}, {ROW}.run_id == engine_data._run_data.run_id and {ROW}.run_started is engine_data._run_data.run_started)"),
             ("no-active-run-stores-no-run-id", f"implies(not ({HAS_RUN}), {ROW}.run_id is None)"),
             ("an-existing-row-is-reused", f"implies(old({ROW}) is not None, {ROW} is old({ROW}))")],
    modifies=dict({"ghost_recent": ["slot(engine_data.engine_id)"]},
                  **{f: [f"old({ROW})"] for f in ("engine_id", "run_id", "run_started", "run_stopped", "contributors", "name", "location",
                                                   "last_update", "required_roles", "system_state")}),
    loops={"for c in engine_data.contributors": LoopSpec(
        invariant=[], frame={"$dhas": ["contributors"], "$dval": ["contributors"], "$dcnt": ["contributors"], "$dord": ["contributors"],
                             "$dpos": ["contributors"]})})


# ---- the same contract, as a handler for callers (modular use of (a)) ---------------------------------------------------------------
def store_call(ctx, args, kwargs):
    """repo.store_recent_engine(engine_data) under its contract (a)"""
    fi = ctx.ex.repo.func(R + "store_recent_engine")
    return ctx.ex.call_function(fi, list(args), dict(kwargs), ctx.fr, ctx.fresh("repo", "RecentEngineRepository"), ctx.node)


store_call.modifies = ["ghost_recent", "engine_id", "run_id", "run_started", "run_stopped", "contributors", "name", "location",
                       "last_update", "required_roles", "system_state"]

# ---- (b) -----------------------------------------------------------------------------------------------------------------------
OLDROW = f"old({ROW})"
restore = Contract(
    target=A + "FromEngine._try_restore_reconnected_engine_data", types=T, ghost_init=slot_axioms, raises={},
    calls=dict(BASE_CALLS, **{"*.get_recent_engine_by_engine_id": tbl_get}),
    ensures=[("a-stored-run-is-continued-under-the-same-run-id",
              f"implies({OLDROW} is not None and {OLDROW}.run_id is not None, {HAS_RUN} and engine_data._run_data.run_id == {OLDROW}.run_id)"),
             ("the-stored-start-time-is-kept",
              f"implies({OLDROW} is not None and {OLDROW}.run_id is not None and {OLDROW}.run_started is not None, engine_data._run_data.run_started is {OLDROW}.run_started)"),
             ("without-a-stored-run-the-run-data-is-left-alone",
              f"implies({OLDROW} is None or {OLDROW}.run_id is None, engine_data._run_data is old(engine_data._run_data))"),
             ("the-table-is-not-written", f"{ROW} is {OLDROW}")],
    modifies={"_run_data": ["engine_data"], "contributors": ["engine_data"]})

# ---- (c) -----------------------------------------------------------------------------------------------------------------------
KEYED = "all(self._engine_data_map[k].engine_id == k for k in self._engine_data_map)"
ED0 = "old(self._engine_data_map[engine_id])"
KNOWN0 = "old(has_key(self._engine_data_map, engine_id))"
disconnected = Contract(
    target=A + "FromEngine.engine_disconnected", types=dict(T, engine_id="str"), ghost_init=slot_axioms,
    requires=[KEYED, "engine_id != ''", "table_wf()"],
    calls=dict(BASE_CALLS, **{"*.store_recent_engine": store_call, "self.publish_engine_disconnected_notification": disconnect_notification}),
    raises={},
    ensures=[("known-engine:row-carries-the-active-run-id",
              f"implies({KNOWN0} and old(self._engine_data_map[engine_id]._run_data is not None), "
              f"slot(engine_id).ghost_recent is not None and slot(engine_id).ghost_recent.run_id == old(self._engine_data_map[engine_id]._run_data.run_id))"),
             ("known-engine:no-run-stores-no-run-id",
              f"implies({KNOWN0} and old(self._engine_data_map[engine_id]._run_data is None), "
              f"slot(engine_id).ghost_recent is not None and slot(engine_id).ghost_recent.run_id is None)"),
             ("the-engine-is-dropped-from-the-map", "not has_key(self._engine_data_map, engine_id)"),
             ("map-stays-keyed-by-engine-id", KEYED)])

# ---- (d) -----------------------------------------------------------------------------------------------------------------------
register = Contract(
    target=A + "FromEngine.register_engine_data", types=T, ghost_init=slot_axioms, raises={},
    requires=[KEYED],
    calls=dict(BASE_CALLS, **{"*.get_recent_engine_by_engine_id": tbl_get}),
    ensures=[("registered-under-its-id", "self._engine_data_map[engine_data.engine_id] is engine_data"),
             ("a-stored-run-is-continued-under-the-same-run-id",
              f"implies({OLDROW} is not None and {OLDROW}.run_id is not None, {HAS_RUN} and engine_data._run_data.run_id == {OLDROW}.run_id)"),
             ("without-a-stored-run-the-run-data-is-left-alone",
              f"implies({OLDROW} is None or {OLDROW}.run_id is None, engine_data._run_data is old(engine_data._run_data))"),
             ("map-stays-keyed-by-engine-id", KEYED)])

# ---- (e) -----------------------------------------------------------------------------------------------------------------------
AG_T = dict(T, self="Aggregator", **{"Aggregator._engine_data_map": "dict[str, EngineData]"})
EDK = "self._engine_data_map[key_at(self._engine_data_map, j)]"
STORED = (f"(slot({EDK}.engine_id).ghost_recent is not None and "
          f"implies({EDK}._run_data is not None, slot({EDK}.engine_id).ghost_recent.run_id == {EDK}._run_data.run_id) and "
          f"implies({EDK}._run_data is None, slot({EDK}.engine_id).ghost_recent.run_id is None))")
shutdown = Contract(
    target=A + "Aggregator.shutdown", types=AG_T, ghost_init=slot_axioms, raises=None,
    requires=["all(self._engine_data_map[k].engine_id == k for k in self._engine_data_map)",
              "all(k != '' for k in self._engine_data_map)", "table_wf()"],
    calls=dict(BASE_CALLS, **{"*.store_recent_engine": store_call}),
    ensures=[("every-registered-engine's-row-carries-its-active-run-id",
              f"all({STORED} for j in range(len(self._engine_data_map)))")],
    loops={"for engine_data in self._engine_data_map.values()": LoopSpec(
        step=[("s1", "engine_data is self._engine_data_map[key_at(self._engine_data_map, idx - 1)]"),
              ("s2", "engine_data.engine_id == key_at(self._engine_data_map, idx - 1)"),
              ("s3", "all(key_at(self._engine_data_map, j) != engine_data.engine_id for j in range(idx - 1))"),
              ("s4", f"all({EDK}.engine_id == key_at(self._engine_data_map, j) and {EDK}._run_data is pre({EDK}._run_data) for j in range(idx - 1))"),
              ("s5", "all(slot(key_at(self._engine_data_map, j)).ghost_recent is pre(slot(key_at(self._engine_data_map, j)).ghost_recent) for j in range(idx - 1))"),
              ("s5b", "all(implies(pre(slot(key_at(self._engine_data_map, j)).ghost_recent) is not None, pre(slot(key_at(self._engine_data_map, j)).ghost_recent.engine_id) == key_at(self._engine_data_map, j)) for j in range(idx - 1))"),
              ("s5c", "implies(pre(slot(engine_data.engine_id).ghost_recent) is not None, pre(slot(engine_data.engine_id).ghost_recent.engine_id) == engine_data.engine_id)"),
              ("s5d", "all(implies(pre(slot(key_at(self._engine_data_map, j)).ghost_recent) is not None, pre(slot(key_at(self._engine_data_map, j)).ghost_recent) is not pre(slot(engine_data.engine_id).ghost_recent)) for j in range(idx - 1))"),
              ("s6", "all(implies(slot(key_at(self._engine_data_map, j)).ghost_recent is not None, slot(key_at(self._engine_data_map, j)).ghost_recent.run_id is pre(slot(key_at(self._engine_data_map, j)).ghost_recent.run_id)) for j in range(idx - 1))"),
              ("s7", f"all(implies({EDK}._run_data is not None, {EDK}._run_data.run_id is pre({EDK}._run_data.run_id)) for j in range(idx - 1))")],
        invariant=[f"all({STORED} for j in range(idx))", "table_wf()",
                   "all(self._engine_data_map[k].engine_id == k for k in self._engine_data_map)", "all(k != '' for k in self._engine_data_map)"])})

CONTRACTS = [store, restore, disconnected, register, shutdown]
TARGETS = [c.key for c in CONTRACTS]


# ---- lemma: disconnect, then re-register -------------------------------------------------------------------------------------------
def lemma_reconnect(ctx):
    slot_axioms(ctx)
    ex = ctx.ex
    ctx.fr.contract = Contract(target="lemma", types=T)
    this = ctx.fresh("from_engine", "FromEngine")
    ex.assume_type(this.term, this.ty, ctx.fr)
    eid = ctx.fresh("engine_id", "str")
    ctx.fr.locals["self"] = this
    ctx.fr.locals["engine_id"] = eid
    ctx.assume(ctx.spec_bool(KEYED))
    ctx.assume(ctx.spec_bool("table_wf()"))
    ctx.assume(SVs(eid.term) != z3.StringVal(""))
    known = ctx.spec_bool("has_key(self._engine_data_map, engine_id)")
    ctx.assume(known)
    had_run = ctx.spec_bool("self._engine_data_map[engine_id]._run_data is not None")
    ctx.assume(had_run)
    run_id0 = ctx.spec("self._engine_data_map[engine_id]._run_data.run_id")
    ctx.call(A + "FromEngine.engine_disconnected", [eid], self_sv=this)
    fresh = ctx.fresh("new_engine_data", "EngineData")
    ex.assume_type(fresh.term, fresh.ty, ctx.fr)
    ctx.fr.locals["engine_data"] = fresh
    ctx.assume(ctx.spec_bool("engine_data.engine_id == engine_id and engine_data._run_data is None"))
    ctx.call(A + "FromEngine.register_engine_data", [fresh], self_sv=this)
    ctx.check("the-re-registered-engine-continues-the-same-run-id",
              z3.And(ctx.spec_bool("engine_data._run_data is not None"),
                     SVs(ctx.spec("engine_data._run_data.run_id").term) == SVs(run_id0.term)), "lemma")
    ctx.check("and-is-the-registered-data-for-that-id", ctx.spec_bool("self._engine_data_map[engine_id] is engine_data"), "lemma")


LEMMAS = [("disconnect-then-reregister", lemma_reconnect)]
TRUSTED = ["RecentEngines table as a ghost heap keyed by engine id: get_recent_engine_by_engine_id returns the row last added under the id "
           "(SQL where/unique), session.add+commit persist it; an aggregator restart reloads exactly the committed rows",
           "EngineData.engine_id is never reassigned; asyncio.create_task / publisher calls do not touch run data or the table",
           "plot-log continuity after the reconnect rests on C29 (store_tag_values is called with the active run's id) and C30 (duplicate "
           "run_started keeps the run and creates no second plot log; a stopped run is stored once): not re-proved here"]
CLAUSES = {"engine disconnects and re-registers during an active run: same run, same run id": "(c) + (d) + lemma disconnect-then-reregister",
           "aggregator restarts": "(e) shutdown rewrites every engine's row; re-registration after the restart is (d)",
           "tag data after the reconnect goes to that run's plot log; the run is stored once when it stops": "by reference to C29 / C30 (see TRUSTED)"}
EXPLANATION = "Ghost-heap model of the RecentEngines table; per-function contracts and a composition lemma over engine_disconnected and register_engine_data."


def replay(obligation, witness):
    """Native oracle: the real FromEngine / Aggregator.shutdown / RecentEngineRepository on an in-memory sqlite database."""
    import contracts.c28_native as n
    for s in n.ALL:
        try:
            r = s()
        except Exception as ex:            # a scenario that cannot even complete on the real classes is a failing input too
            return {"confirmed": True, "violated": True, "scenario_raised": f"{type(ex).__name__}: {ex}"}
        if r["violated"]:
            return {"confirmed": True, **r}
    return {"confirmed": False}


REPLAY_WITHOUT_WITNESS = True


def _nat(k):
    def run():
        import contracts.c28_native as n
        r = n.ALL[k]()
        return {"ok": not r["violated"], "observation": r}
    return run


NATIVE = [("native:disconnect-then-reregister-on-sqlite", _nat(0)), ("native:shutdown-restart-reregister-on-sqlite", _nat(1)),
          ("native:no-run-nothing-restored", _nat(2)), ("native:stored-row-without-start-time", _nat(3)),
          ("native:idle-disconnect-clears-the-stored-run-id", _nat(4)), ("native:idle-shutdown-clears-the-stored-run-id", _nat(5))]
BOUNDED = ["three native scenarios on the real classes with an in-memory sqlite database: cross-check of the ghost-table model (bounded, not counted)"]
