"""C07 — Method clocks advance only while running.
(a) Engine.update_calculated_tags: Process Time advances by the tick increment exactly when System State is Running, Run Time exactly
    when a run is active (state not Stopped / Restarting); neither ever decreases.
(b) Start (and Restart, which begins a new run under a new run id) leave both at zero.
(c) BlockTimeTag / ScopeTimeTag: on_tick changes nothing while `_paused`, otherwise adds the (non-negative) increment; on_runstate_change
    sets / clears `_paused`.
(d) linking invariant J over the run-state commands: while a run is active and System State is not Running (Paused, Holding), the
    timer tags are paused (ghost `ghost_timers_paused`, driven by the run-state-change events the commands emit)."""
import z3
from pyvc.spec import Contract, LoopSpec
from pyvc.smt import Val, RID, RV, mk_real, mk_bool
from pyvc.state import SV
from pyvc.repo import Ty
import contracts.c06 as c06
from contracts.runstate import I as M, E, TYPES as T0, CALLS as C0, EN, tag_get, tag_set, noop, inv

PROP = "C07"
TYPES = dict(T0, **{"self": "Engine", "tick_time": "float", "increment_time": "float", "Engine.ghost_process_time": "float",
                    "Engine.ghost_run_time": "float"})


def as_float(field):
    def h(ctx, args, kwargs):
        s = ctx.local("self")
        return SV(ctx.st.read(field, RID(s.term)), Ty("float"))
    h.modifies = []
    h.__doc__ = f"Tag.as_float(): the numeric value of the tag (ghost field {field})"
    return h


def set_field(field):
    def h(ctx, args, kwargs):
        s = ctx.local("self")
        ctx.st.write(field, RID(s.term), args[0].term)
        return ctx.none()
    h.modifies = [field]
    h.__doc__ = f"Tag.set_value(v, t): value stored in ghost field {field}"
    return h


UC = dict(C0, **{"process_time.as_float": as_float("ghost_process_time"), "process_time.set_value": set_field("ghost_process_time"),
                 "run_time.as_float": as_float("ghost_run_time"), "run_time.set_value": set_field("ghost_run_time"),
                 "clock.set_value": noop, "self._system_tags.get": lambda ctx, a, k: ctx.fresh("tag", None),
                 "sys_state.get_value": lambda ctx, a, k: SV(ctx.st.read("ghost_sys_state", RID(ctx.local("self").term)), None),
                 "self.emitter.emit_on_tick": noop})
S = "self.ghost_sys_state"
update = Contract(
    target=E + "update_calculated_tags", types=TYPES, calls=UC, raises={}, options={"opaque_subscript": True},
    requires=["increment_time >= 0"],
    ensures=[("process-time-advances-exactly-while-running",
              f'self.ghost_process_time == old(self.ghost_process_time) + (increment_time if old({S}) == "Running" else 0.0)'),
             ("run-time-advances-exactly-while-a-run-is-active",
              f'self.ghost_run_time == old(self.ghost_run_time) + (increment_time if old({S}) not in ["Stopped", "Restarting"] else 0.0)'),
             ("never-decrease", "self.ghost_process_time >= old(self.ghost_process_time) and self.ghost_run_time >= old(self.ghost_run_time)"),
             ("state-untouched", f"{S} is old({S})")])

# ---- (a') the gate in Engine.tick: the clocks are only advanced for an active run -------------------------------------------------------
def update_call(ctx, args, kwargs):
    """self.update_calculated_tags(...) in Engine.tick: allowed only while a run is active (`_runstate_started`), whatever the System State
    tag says (set_error_state can set it to Paused without a run)"""
    ctx.check("clocks-advanced-only-while-a-run-is-active", ctx.spec_bool("self._runstate_started"), "call-site")
    ctx.ghost["clock_updates"] = ctx.ghost.get("clock_updates", 0) + 1
    return ctx.none()


update_call.modifies = []


def tick_exit(ctx, kind, result):
    ctx.check("clocks-advanced-at-most-once-per-tick", z3.BoolVal(ctx.ghost.get("clock_updates", 0) <= 1), "postcondition")


def opaque_component(ctx, args, kwargs):
    """component call in Engine.tick (hardware, tracking, interpreter, command manager, error state): may change anything but is not followed here"""
    return ctx.fresh("component_result", None)


opaque_component.modifies = None
tick_gate = Contract(
    target=E + "tick", types={"self": "Engine", "tick_time": "float", "increment_time": "float", "Engine._runstate_started": "bool",
                              "Engine._runstate_paused": "bool", "Engine._runstate_holding": "bool", "Engine._runstate_stopping": "bool",
                              "Engine._tick_number": "int"},
    calls={"self.update_calculated_tags": update_call, "self.interpreter.tick": opaque_component, "self.set_error_state": opaque_component,
           "self._command_manager.tick": opaque_component, "self.read_process_image": opaque_component, "self.write_process_image": opaque_component,
           "self.notify_tag_updates": opaque_component, "self.tracking.tick": opaque_component, "self.uod.hwl.tick": opaque_component,
           "self._tick_timer.stop": opaque_component, "with self._lock": None},
    raises=None, on_exit=tick_exit, options={"lenient": True, "protected_prefixes": (), "opaque_subscript": True, "default_unroll": 1})

# ---- (b) zero at run start ----------------------------------------------------------------------------------------------------
ZERO = f"{EN}.ghost_run_time == 0.0 and {EN}.ghost_process_time == 0.0"
start = [c for c in c06.CONTRACTS if c.target.endswith("StartEngineCommand._run")][0]
restart = [c for c in c06.CONTRACTS if c.target.endswith("RestartEngineCommand._run")][0]
import copy
start7 = copy.copy(start)
start7.ensures = list(start.ensures) + [("clocks-zero-when-a-run-starts", f"implies(not old({EN}._runstate_started), {ZERO})")]
restart7 = copy.copy(restart)
restart7.ensures = list(restart.ensures) + [("clocks-zero-when-the-restarted-run-starts",
                                             f'implies(old({EN}.ghost_sys_state) not in ["Stopped", "Restarting"], {ZERO})')]

# ---- (c) the two timer tags -------------------------------------------------------------------------------------------------------
TI = "openpectus.lang.exec.tags_impl:"
TT = {"self": "BlockTimeTag", "BlockTimeTag._stack": "list[StackItem]", "StackItem.value": "float", "BlockTimeTag._paused": "bool",
      "tick_time": "float", "increment_time": "float", "ScopeTimeTag._timers": "dict[str, float]", "ScopeTimeTag._stack": "list[str]",
      "ScopeTimeTag._paused": "bool"}
TC = {"self.tracer.trace": noop}
block_tick = Contract(
    target=TI + "BlockTimeTag.on_tick", types=TT, calls=TC, raises={},
    requires=["increment_time >= 0", "all(self._stack[a] is not self._stack[b] for a in range(len(self._stack)) for b in range(a))",
              "all(self._stack[a] is not self for a in range(len(self._stack)))"],
    ensures=[("paused=>nothing-advances",
              "implies(old(self._paused), all(self._stack[k].value == old(self._stack[k].value) for k in range(len(self._stack))) and self.value is old(self.value))"),
             ("running=>every-open-block-advances-by-the-increment",
              "implies(not old(self._paused), all(self._stack[k].value == old(self._stack[k].value) + increment_time for k in range(len(self._stack))))"),
             ("stack-untouched", "len(self._stack) == old(len(self._stack)) and all(self._stack[k] is old(self._stack[k]) for k in range(len(self._stack)))")],
    loops={"for item in self._stack": LoopSpec(unroll=3)})
block_tick.requires.append("len(self._stack) <= 3")
block_rsc = Contract(
    target=TI + "BlockTimeTag.on_runstate_change", types=TT, raises={},
    ensures=[("pause-event-pauses", 'implies(state_change == "Pause", self._paused)'),
             ("unpause-event-resumes", 'implies(state_change == "Unpause", not self._paused)')])
scope_tick = Contract(
    target=TI + "ScopeTimeTag.on_tick", types=dict(TT, self="ScopeTimeTag"), calls=TC, raises={},
    requires=["increment_time >= 0"],
    ensures=[("paused=>nothing-advances",
              "implies(old(self._paused), all(self._timers[k] == old(self._timers[k]) for k in self._timers) and self.value is old(self.value))"),
             ("running=>no-timer-goes-back", "all(self._timers[k] >= old(self._timers[k]) for k in old(self._timers))")],
    loops={"for key in self._timers.keys()": LoopSpec(unroll=3)}, options={"comp_bound": 3})
scope_tick.requires.append("len(self._timers) <= 3")
scope_rsc = Contract(
    target=TI + "ScopeTimeTag.on_runstate_change", types=dict(TT, self="ScopeTimeTag"), raises={},
    ensures=[("pause-event-pauses", 'implies(state_change == "Pause", self._paused)'),
             ("unpause-event-resumes", 'implies(state_change == "Unpause", not self._paused)')])


# ---- (d) linking invariant J over the run-state commands ------------------------------------------------------------------------
def emit_rsc(ctx, args, kwargs):
    """emitter.emit_on_runstate_change(x): every listener's on_runstate_change(x) runs (dispatch loop), i.e. both timer tags become
    paused on PAUSE and resume on UNPAUSE (their contracts above)"""
    from contracts.runstate import _engine
    e = _engine(ctx)
    v = args[0].term
    ctx.st.write("ghost_timers_paused", RID(e.term), z3.If(v == Val.VStr(z3.StringVal("Pause")), Val.VBool(z3.BoolVal(True)),
                                                           z3.If(v == Val.VStr(z3.StringVal("Unpause")), Val.VBool(z3.BoolVal(False)),
                                                                 ctx.st.read("ghost_timers_paused", RID(e.term)))))
    return ctx.none()


emit_rsc.modifies = ["ghost_timers_paused"]
J = ("J:timers-paused-whenever-a-run-is-active-and-not-Running",
     f'implies({EN}._runstate_started and {EN}.ghost_sys_state != "Running" and {EN}.ghost_sys_state != "Restarting", '
     f'{EN}.ghost_timers_paused == True)')
JC = dict(C0, **{"e.emitter.emit_on_runstate_change": emit_rsc})
jcontracts = []
for cname in ("PauseEngineCommand", "UnpauseEngineCommand", "HoldEngineCommand", "UnholdEngineCommand"):
    base = [c for c in c06.CONTRACTS if c.target.endswith(cname + "._run")][0]
    jc = copy.copy(base)
    jc.calls = JC
    jc.variant = "J"
    jc.requires = list(base.requires) + [J]
    jc.ensures = [J]
    jc.exc_ensures = {}
    jc.on_yield = None
    jc.loops = {"while self.engine._tick_time < duration_end_time": LoopSpec(unroll=0)}
    jcontracts.append(jc)
J_SELF = ("J:timers-paused-whenever-a-run-is-active-and-not-Running",
          'implies(self._runstate_started and self.ghost_sys_state != "Running" and self.ghost_sys_state != "Restarting", self.ghost_timers_paused == True)')
err = [c for c in c06.CONTRACTS if c.target.endswith("Engine.set_error_state")][0]
errj = copy.copy(err)
errj.variant = "J"
errj.requires = list(err.requires) + [J_SELF]
errj.ensures = [J_SELF]
errj.calls = dict(err.calls, **{"self._emitter.emit_on_runstate_change": emit_rsc})

start7.variant = "C07"
restart7.variant = "C07"
CONTRACTS = [update, tick_gate, start7, restart7, block_tick, block_rsc, scope_tick, scope_rsc] + jcontracts + [errj] + \
    [c for c in c06.CONTRACTS if c.target.endswith(("UnpauseEngineCommand._run", "UnholdEngineCommand._run")) and not c.variant]
TARGETS = [c.key for c in [update, tick_gate, start7, restart7, block_tick, block_rsc, scope_tick, scope_rsc] + jcontracts + [errj]]
LEVEL = "other"
BOUNDED = ["BlockTimeTag.on_tick: at most 3 nested blocks and ScopeTimeTag.on_tick: at most 3 open scopes (loops unrolled); timed Pause/Hold waits are not followed in the J variants (only the segment up to the first yield)"]
TRUSTED = c06.TRUSTED + ["EventEmitter.emit_on_tick / emit_on_runstate_change call every listener's handler once (dispatch loops not under contract)",
                         "Tag.as_float / set_value of Process Time and Run Time read / store the value (ghost fields)"]
CLAUSES = {"Process Time / Run Time zero at run start, never decrease, advance only while Running / while a run is active": "(a) + (b)",
           "Block Time and Scope Time advance only while Running (not Paused, not Holding)": "(c) + linking invariant J (d) over Pause/Unpause/Hold/Unhold/set_error_state"}
EXPLANATION = "Arithmetic postcondition of update_calculated_tags, timer-tag contracts, and a ghost linking invariant over the run-state commands."


def replay(obligation, witness):
    import contracts.c07_native as n
    if "Restart" in obligation:
        r = n.scenario_restart_resets_clocks()
    elif "J:" in obligation:
        r = n.scenario_block_time_while_holding()
    else:
        return {"confirmed": False}
    return {"confirmed": r["violated"], **r}


def _nat():
    import contracts.c07_native as n
    r = n.scenario_restart_resets_clocks()
    return {"ok": not r["violated"], "observation": r}


def _nat2():
    import contracts.c07_native as n
    r = n.threshold_after_pause_stop_start()
    return {"ok": not r["violated"], "observation": r}


NATIVE = [("native:restart-resets-clocks", _nat), ("native:timers-run-again-after-pause-stop-start", _nat2)]
REPLAY_WITHOUT_WITNESS = True
