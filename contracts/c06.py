"""C06 — Run state and System State always agree; control commands gated  (+ C09 invariant K, see c09.py).
Every internal run-state command is cut at its yields into atomic segments; invariant I (and K) is assumed at entry and after each
yield (rely: other commands preserve it, and a command is only resumed while its run is still active), and proved at each yield and
at each exit."""
import z3
from pyvc.spec import Contract, LoopSpec
from contracts.runstate import I as M, E, TYPES, CALLS, inv, EN

PROP = "C06"
INV = inv()
STARTED = f"{EN}._runstate_started"
NOT_RESTARTING = f'{EN}.ghost_sys_state != "Restarting"'


def on_yield(ctx):
    """interference point: guarantee = I holds; other commands run (havoc of the run-state view); rely = I holds again, the run this
    command belongs to is still active (Stop/Restart cancel all running commands) and nobody else leaves Restarting behind"""
    ex, st = ctx.ex, ctx.st
    from pyvc.verify import eval_spec_list
    k = ctx.fr.yield_count = getattr(ctx.fr, "yield_count", 0) + 1
    for lab, f in eval_spec_list(ex, INV, ctx.fr):
        ctx.check(f"yield:{lab}", f, "interference-guarantee")
    mine_restarting = ctx.spec_bool(f'{EN}.ghost_sys_state == "Restarting"')
    was_restart = ctx.fr.func.cls is not None and ctx.fr.func.cls.name == "RestartEngineCommand"
    for fld in ("_runstate_paused", "_runstate_holding", "_prev_state", "ghost_pause_seq", "_tick_time") + \
            (() if was_restart else ("ghost_sys_state", "ghost_run_id")):
        st.havoc_field(fld)
    for lab, f in eval_spec_list(ex, INV, ctx.fr):
        ctx.assume(f)
    ctx.assume(ctx.spec_bool(f"{EN}._runstate_paused == True or {EN}._runstate_paused == False"))
    if not was_restart:
        ctx.assume(ctx.spec_bool(NOT_RESTARTING))


# what the interference at a yield may change (used for the havoc at the head of a loop that contains the yield)
on_yield.modifies = ["_runstate_paused", "_runstate_holding", "_prev_state", "ghost_pause_seq", "_tick_time", "ghost_sys_state", "ghost_run_id"]


def C(cls, requires=(), ensures=(), loops=None, target=None):
    if cls != "RestartEngineCommand":
        ensures = list(ensures) + [("restarting-only-during-a-restart",
                                    f'implies(old({EN}.ghost_sys_state) != "Restarting", {EN}.ghost_sys_state != "Restarting")')]
    return Contract(target=target or (M + cls + "._run"), types=TYPES, calls=CALLS, requires=INV + list(requires),
                    ensures=INV + list(ensures), exc_ensures={"*": INV}, raises={"ValueError": None},
                    loops=loops or {}, on_yield=on_yield, options={"opaque_subscript": True})


WAIT = {"while self.engine._tick_time < duration_end_time": LoopSpec(invariant=INV + [STARTED, NOT_RESTARTING], frame=None)}
S = f"{EN}.ghost_sys_state"
contracts = [
    C("StartEngineCommand", [NOT_RESTARTING],
      [("start-from-stopped-gives-a-running-run-with-a-fresh-non-empty-run-id",
        f'implies(not old({STARTED}), {STARTED} and {S} == "Running" and {EN}.ghost_run_id is not None and '
        f'len(typed({EN}.ghost_run_id, "str")) > 0 and {EN}.ghost_run_id != old({EN}.ghost_run_id))'),
       ("start-while-running-changes-nothing", f"implies(old({STARTED}), {S} == old({S}) and {EN}.ghost_run_id is old({EN}.ghost_run_id))")]),
    C("PauseEngineCommand", [STARTED, NOT_RESTARTING], [("restarting-only-by-restart", NOT_RESTARTING)], loops=WAIT),
    C("UnpauseEngineCommand", [STARTED, NOT_RESTARTING],
      [("unpaused", f'not {EN}._runstate_paused and {S} == ("Holding" if {EN}._runstate_holding else "Running")')]),
    C("HoldEngineCommand", [STARTED, NOT_RESTARTING], [("restarting-only-by-restart", NOT_RESTARTING)], loops=WAIT),
    C("UnholdEngineCommand", [STARTED, NOT_RESTARTING], [("not-holding", f"not {EN}._runstate_holding")]),
    C("StopEngineCommand", [],
      [("stop-of-an-active-run-ends-it-and-clears-the-run-id",
        f'implies(old({S}) not in ["Stopped", "Restarting"], not {STARTED} and {S} == "Stopped" and {EN}.ghost_run_id is None)')]),
    C("RestartEngineCommand", [],
      [("restart-of-an-active-run-gives-a-running-run-under-a-new-run-id",
        f'implies(old({S}) not in ["Stopped", "Restarting"], {STARTED} and {S} == "Running" and {EN}.ghost_run_id is not None and '
        f'{EN}.ghost_run_id != old({EN}.ghost_run_id))')]),
    C("PauseEngineCommand", [STARTED, NOT_RESTARTING], [("cancelled-pause-ends-at-once", f"not {EN}._runstate_paused")],
      target=M + "PauseEngineCommand.cancel"),
    C("HoldEngineCommand", [STARTED, NOT_RESTARTING], [("cancelled-hold-ends-at-once", f"not {EN}._runstate_holding")],
      target=M + "HoldEngineCommand.cancel"),
]

# ---- gating of user control commands: accepted exactly when valid in the state at the time of the request ---------------------
SELF_INV = inv("self")
SS = "self.ghost_sys_state"
VALID = {  # validity table transcribed from the statement (state at the time of the request)
    "Start": f'{SS} == "Stopped"',
    "Stop": f'{SS} not in ["Stopped", "Restarting"]',
    "Restart": f'{SS} not in ["Stopped", "Restarting"]',
    "Pause": f'{SS} not in ["Stopped", "Restarting"] and not self._runstate_paused',
    "Unpause": f'{SS} not in ["Stopped", "Restarting"] and self._runstate_paused',
    "Hold": f'{SS} not in ["Stopped", "Restarting"] and not self._runstate_holding',
    "Unhold": f'{SS} not in ["Stopped", "Restarting"] and self._runstate_holding',
}
invalid = " or ".join(f'(command_name == "{n}" and not ({v}))' for n, v in VALID.items())
validate = Contract(
    target=E + "_validate_control_command", types=dict(TYPES, self="Engine", command_name="str"), calls=CALLS, requires=SELF_INV,
    raises={"ValueError": invalid}, options={"raises_iff": {"ValueError": invalid}}, modifies={})

set_error_state = Contract(
    target=E + "set_error_state", types=dict(TYPES, self="Engine"), calls=CALLS,
    requires=SELF_INV + ['self.ghost_sys_state != "Restarting"'],
    ensures=SELF_INV[:2] + [("an-active-run-is-paused-by-the-error", "implies(old(self._runstate_started), self._runstate_paused)"),
                            ("without-a-run-the-state-stays-stopped",
                             "implies(not old(self._runstate_started), not self._runstate_started and self._runstate_paused == old(self._runstate_paused))")],
    raises={})

CONTRACTS = contracts + [validate, set_error_state]
TARGETS = [c.key for c in CONTRACTS]
for k, c in enumerate(CONTRACTS):
    if c.target.endswith(".cancel"):
        c.variant = "cancel"
TARGETS = [c.key for c in CONTRACTS]
TRUSTED = ["system tags modelled by ghost fields of the engine: set_value stores, get_value reads (no simulation of system tags)",
           "uuid4 run ids are fresh and non-empty", "a command is resumed after a yield only while its run is still active (Stop/Restart cancel all commands) — CommandManager scheduling is outside this proof",
           "segment preconditions: Pause/Unpause/Hold/Unhold run only while a run is active (the gating contract covers user requests; method instructions are not gated)",
           "tracking/emitter/interpreter services do not touch run-state flags or system tags"]
CLAUSES = {"System State tag agrees with run state (pause over hold, Stopped iff no run, Restarting only during restart)": "invariant I at every yield and exit of every run-state command",
           "fresh non-empty run id per run, cleared when the run ends": "Start/Restart/Stop postconditions + I:run-id",
           "a user control command is accepted exactly when valid in the state at the time of the request": "raises-iff contract on Engine._validate_control_command against the validity table",
           "reported control state agrees": "not covered (EngineMessageBuilder reads the same flags; not under contract)"}
EXPLANATION = "Class-invariant + interference rule over the real internal command generators; validity table as a raises-iff contract."
