"""Native scenario for C12 (command items): a cancel / force request for a UOD command item that has already completed (run log shows it
completed, not cancellable, not forcible) must be rejected and change nothing."""
import logging


def request_for_a_completed_command_item(kind="cancel"):
    from openpectus.lang.exec.uod import UodBuilder, UodCommand
    from openpectus.test.engine.utility_methods import EngineTestRunner
    logging.disable(logging.CRITICAL)

    def quick(cmd: UodCommand, **kw):
        cmd.set_complete()

    def create_uod():
        uod = (UodBuilder().with_instrument("DemoUod").with_author("Demo", "demo@example.org").with_filename(__file__)
               .with_hardware_none().with_location("loc").with_command(name="Quick", exec_fn=quick).build())
        uod.hwl.connect()
        return uod
    try:
        with EngineTestRunner(create_uod, "Quick\nWait: 1s\n", fail_on_log_error=False).run() as instance:
            e = instance.engine
            instance.start()
            instance.run_ticks(6)
            item = [i for i in e.tracking.get_runlog().items if i.name == "Quick"][0]
            offered = item.cancellable if kind == "cancel" else item.forcible
            states_before = [str(s.state_name) for r in e.tracking.runtimeinfo.records if r.name == "Quick" for s in r.states]
            accepted = True
            try:
                (e.cancel_instruction if kind == "cancel" else e.force_instruction)(item.id)
            except Exception:
                accepted = False
            instance.run_ticks(1)
            states_after = [str(s.state_name) for r in e.tracking.runtimeinfo.records if r.name == "Quick" for s in r.states]
            producible = True
            try:
                e.tracking.get_runlog()
            except Exception:
                producible = False
            bad = (not offered) and (accepted and states_after != states_before or not producible)
            return {"violated": bad, "request": kind, "item_state": str(item.state), "offered": offered, "request_accepted": accepted,
                    "states_before": states_before, "states_after": states_after, "run_log_still_producible": producible}
    finally:
        logging.disable(logging.NOTSET)


if __name__ == "__main__":
    print(request_for_a_completed_command_item("cancel"))
    print(request_for_a_completed_command_item("force"))
