"""C27 — Engine messages survive disconnects without loss or duplication (openpectus/engine/engine_runner.py,
openpectus/protocol/engine_dispatcher.py) — the per-function part.

What contracts on the real functions decide (and nothing more):
  * EngineDispatcher.assign_sequence_number: a message that already has a number keeps it (resends keep one number); a fresh number is
    strictly larger than every number issued before (uniqueness by the monotone counter).
  * EngineRunner._buffer_message: numbers the message and appends it at the END of the buffer; every other buffered message keeps its
    place (order of production is the order of the buffer).
  * EngineRunner._post_async, by the recovery state at entry: while the connection is down the message is buffered exactly once and no
    send is attempted; while it is up exactly one send is attempted and the message is buffered if and only if that attempt failed with a
    network error (delivered more than once only after a failed attempt; never lost).
  * EngineRunner._send_buffered_batch: the buffer is emptied only into a copy that holds exactly its messages in order, every message of
    that copy is handed to _post_async once and in order, and `Reconnected` (caught up) is entered only with an empty buffer.
What they do NOT decide: the interleaving of the tasks (timer tick, buffer task, transmit task, thread hand-over from the engine thread),
cancellation windows, and that the aggregator receives what `send_async` returned normally for. Those clauses are listed as not covered."""
import z3
from pyvc.spec import Contract
from pyvc.smt import Val, RID, IV, SVs, mk_int
from pyvc.state import SV
from pyvc.repo import Ty
from pyvc import heapops as H

PROP = "C27"
R = "openpectus.engine.engine_runner:EngineRunner."
D = "openpectus.protocol.engine_dispatcher:EngineDispatcher."
LEVEL = "other"
TYPES = {"self": "EngineRunner", "message": "EngineMessage", "EngineRunner._message_buffer": "list[EngineMessage]",
         "EngineRunner._state": "str", "EngineRunner._dispatcher": "EngineDispatcher", "EngineDispatcher._sequence_number": "int",
         "EngineMessage.sequence_number": "int", "EngineMessageBase.sequence_number": "int"}
DTYPES = {"self": "EngineDispatcher", "message": "EngineMessage", "EngineDispatcher._sequence_number": "int",
          "EngineMessage.sequence_number": "int", "EngineMessageBase.sequence_number": "int"}

# ---------------------------------------------------------------------------------------------------------------- numbering
assign = Contract(
    target=D + "assign_sequence_number", types=DTYPES, raises={},
    requires=["self._sequence_number >= 1"],        # set to 1 by the constructor and never decreased (postcondition below)
    ensures=[("numbered-message-keeps-its-number-and-consumes-none",
              "old(message.sequence_number) == -1 or (message.sequence_number == old(message.sequence_number) "
              "and self._sequence_number == old(self._sequence_number))"),
             ("fresh-number-is-larger-than-every-number-issued-before",
              "old(message.sequence_number) != -1 or (message.sequence_number > old(self._sequence_number) "
              "and self._sequence_number == message.sequence_number)"),
             ("message-is-numbered-afterwards", "message.sequence_number != -1 or old(message.sequence_number) != -1"),
             ("counter-never-decreases", "self._sequence_number >= old(self._sequence_number)")],
    modifies={"_sequence_number": ["self"], "sequence_number": ["message"]})

# ---------------------------------------------------------------------------------------------------------------- buffering
buffer_message = Contract(
    target=R + "_buffer_message", types=TYPES, raises={},
    requires=["self._dispatcher._sequence_number >= 1"],
    ensures=[("appended-at-the-end", "len(self._message_buffer) == old(len(self._message_buffer)) + 1 and self._message_buffer[-1] is message"),
             ("earlier-messages-keep-their-place",
              "all(self._message_buffer[k] is old(self._message_buffer)[k] for k in range(old(len(self._message_buffer))))"),
             ("buffered-message-keeps-a-number-it-already-had",
              "old(message.sequence_number) == -1 or message.sequence_number == old(message.sequence_number)")])


# ---------------------------------------------------------------------------------------------------------------- posting
def _send(ctx, args, kwargs):
    """dispatcher.send_async(message): one delivery attempt (ghost log). It returns the aggregator's reply, or raises
    ProtocolNetworkException when the connection is gone"""
    ctx.ghost.setdefault("sent", []).append(args[0])
    if ctx.choose(2, "send_async outcome") == 1:
        ctx.ghost["send_failed"] = True
        ctx.raise_("ProtocolNetworkException", "send failed")
    return ctx.fresh("reply", None)


_send.modifies = []


def _buffer(ctx, args, kwargs):
    """self._buffer_message(message): recorded in a ghost log (its own contract proves the append)"""
    ctx.ghost.setdefault("buffered", []).append(args[0])
    return ctx.none()


_buffer.modifies = []


def _set_state(ctx, args, kwargs):
    """await self._set_state(s): the recovery state becomes s (callbacks and task management are outside this contract)"""
    ctx.ghost.setdefault("states", []).append(args[0])
    ctx.st.write("_state", ctx.rid(ctx.local("self")), args[0].term)
    return ctx.none()


_set_state.modifies = ["_state"]
UP = ("Connected", "Reconnected", "CatchingUp")
DOWN = ("Failed", "Disconnected", "Reconnecting")


def _in(ctx, names):
    s0 = ctx.spec("old(self._state)")
    return z3.Or([SVs(s0.term) == z3.StringVal(n) for n in names])


def post_exit(ctx, kind, result):
    if kind != "return":
        return
    sent = ctx.ghost.get("sent", [])
    buf = ctx.ghost.get("buffered", [])
    failed = bool(ctx.ghost.get("send_failed"))
    msg = ctx.local("message")
    B = z3.BoolVal
    is_msg = lambda log: B(True) if not log else z3.And([e.term == msg.term for e in log])
    ctx.check("connection-down:message-buffered-exactly-once-and-no-send-attempted",
              z3.Implies(_in(ctx, DOWN), z3.And(B(len(buf) == 1 and len(sent) == 0), is_msg(buf))), "postcondition")
    ctx.check("connection-up:exactly-one-delivery-attempt", z3.Implies(_in(ctx, UP), z3.And(B(len(sent) == 1), is_msg(sent))), "postcondition")
    ctx.check("connection-up:buffered-if-and-only-if-the-attempt-failed (no loss, no duplicate)",
              z3.Implies(_in(ctx, UP), z3.And(B(len(buf) == (1 if failed else 0)), is_msg(buf))), "postcondition")
    ctx.check("stopped:nothing-sent-nothing-buffered",
              z3.Implies(_in(ctx, ("Stopped",)), B(len(buf) == 0 and len(sent) == 0)), "postcondition")
    if failed:
        states = ctx.ghost.get("states", [])
        ctx.check("failed-attempt:the-runner-is-told-to-enter-Failed",
                  z3.Or([SVs(x.term) == z3.StringVal("Failed") for x in states]) if states else z3.BoolVal(False), "postcondition")


post_async = Contract(
    target=R + "_post_async", types=TYPES, raises={},
    calls={"self._dispatcher.send_async": _send, "self._buffer_message": _buffer, "self._set_state": _set_state,
           "M.ErrorMessage": lambda ctx, a, k: ctx.fresh("error_message", None)},
    on_exit=post_exit, on_yield=lambda ctx: _interference(ctx))


# ---------------------------------------------------------------------------------------------------------------- catching up
def _post(ctx, args, kwargs):
    """self._post_async(m): the coroutine that posts m (pure value POST(m); run by `await` / asyncio.gather)"""
    return SV(z3.Function("POST", Val, Val)(args[0].term), None)


_post.modifies = []


def _wrap(ctx, args, kwargs):
    """wrap(m): progress-logging closure around self._post_async(m) (assumed to post m exactly once)"""
    return SV(z3.Function("POST", Val, Val)(args[0].term), None)


_wrap.modifies = []


def _clear(ctx, args, kwargs):
    """self._message_buffer.clear(): allowed only when the local copy holds exactly the buffered messages, in order"""
    st = ctx.st
    buf = ctx.spec("self._message_buffer")
    cp = ctx.local("message_buffer")
    ok = z3.BoolVal(False)
    if cp is not None and cp.term is not None:
        n = ctx.list_len(buf)
        k = z3.Int(st.fresh_name("k"))
        ok = z3.And(ctx.list_len(cp) == n, RID(cp.term) != RID(buf.term),
                    z3.ForAll([k], z3.Implies(z3.And(0 <= k, k < n), H.list_get(st, RID(cp.term), k) == H.list_get(st, RID(buf.term), k))))
    ctx.check("buffer-emptied-only-into-a-copy-holding-exactly-its-messages-in-order", ok, "call-site")
    ctx.ghost["cleared"] = ctx.ghost.get("cleared", 0) + 1
    H.list_clear(st, RID(buf.term))
    return ctx.none()


_clear.modifies = ["$len", "$items"]


def _gather(ctx, node):
    """asyncio.gather(*coros): runs every coroutine of the list to completion (assumed); obligation: the list posts every message
    of the copy exactly once and in order"""
    st = ctx.st
    if len(node.args) != 1 or not hasattr(node.args[0], "value"):
        ctx.check("gather-runs-exactly-the-posting-coroutines", z3.BoolVal(False), "call-site")
        return ctx.none()
    calls = ctx.ex.ev(node.args[0].value, ctx.fr)
    cp = ctx.local("message_buffer")
    POST = z3.Function("POST", Val, Val)
    ok = z3.BoolVal(False)
    if cp is not None and cp.term is not None and calls.term is not None:
        n = ctx.list_len(cp)
        k = z3.Int(st.fresh_name("k"))
        ok = z3.And(ctx.list_len(calls) == n,
                    z3.ForAll([k], z3.Implies(z3.And(0 <= k, k < n),
                                              H.list_get(st, RID(calls.term), k) == POST(H.list_get(st, RID(cp.term), k)))))
    ctx.check("every-message-of-the-copy-is-posted-once-and-in-order", ok, "call-site")
    ctx.ghost["gathered"] = ctx.ghost.get("gathered", 0) + 1
    return ctx.none()


_gather.raw = True
_gather.modifies = []


def _set_state_batch(ctx, args, kwargs):
    """await self._set_state(s) from the batch sender: `Reconnected` (caught up) only with an empty buffer"""
    if z3.is_string_value(SVs(args[0].term)) and SVs(args[0].term).as_string() == "Reconnected":
        ctx.check("caught-up-reported-only-with-an-empty-buffer", ctx.list_len(ctx.spec("self._message_buffer")) == 0, "call-site")
    return _set_state(ctx, args, kwargs)


_set_state_batch.modifies = ["_state"]


def batch_exit(ctx, kind, result):
    if kind != "return":
        return
    cleared, gathered = ctx.ghost.get("cleared", 0), ctx.ghost.get("gathered", 0)
    ctx.check("a-cleared-buffer-is-always-reposted", z3.BoolVal(cleared == gathered and cleared <= 1), "postcondition")
    states = ctx.ghost.get("states", [])
    if not cleared and not states:
        # nothing re-posted and not caught up: only legal when the runner is stopped
        ctx.check("nothing-to-do-only-when-stopped", SVs(ctx.spec("old(self._state)").term) == z3.StringVal("Stopped"), "postcondition")


def _interference(ctx):
    """await: other coroutines of the runner may run (buffer task appends messages, other posts fail, re-buffer and change the recovery
    state): the buffer's content and length and the recovery state are unknown afterwards"""
    st = ctx.st
    me = ctx.local("self")
    if me is None:
        return
    st.write("_state", RID(me.term), ctx.fresh("state_after_await", "str").term)
    buf = st.read("_message_buffer", RID(me.term))
    n = st.fresh("buflen_after_await", z3.IntSort())
    st.assume(n >= 0)
    st.write("$len", RID(buf), n)
    items = st.read("$items", RID(buf))
    st.write("$items", RID(buf), st.fresh("bufitems_after_await", items.sort()))


_interference.modifies = ["$len", "$items", "_state"]

send_batch = Contract(
    target=R + "_send_buffered_batch", types=dict(TYPES, message_buffer="list[EngineMessage]"), raises={},
    calls={"self._post_async": _post, "wrap": _wrap, "self._message_buffer.clear": _clear, "asyncio.gather": _gather,
           "self._set_state": _set_state_batch, "self._message_builder.*": lambda ctx, a, k: ctx.fresh("built_message", "EngineMessage"),
           },
    on_exit=batch_exit, on_yield=_interference, options={"lenient": True})

CONTRACTS = [assign, buffer_message, post_async, send_batch]
TARGETS = [c.target for c in CONTRACTS]
TRUSTED = ["dispatcher.send_async either returns (one delivery attempt made) or raises ProtocolNetworkException; its other failure modes "
           "(serialization error, unknown error: an ErrorMessage is returned and the message is NOT buffered) are outside these contracts",
           "asyncio.gather runs every coroutine it is given to completion; `await coro` runs it",
           "wrap(message) (progress logging closure used for 100 or more buffered messages) posts its message exactly once",
           "_set_state is represented by its effect on _state only (callbacks, task cancellation not followed)",
           "interference at every await of _post_async and _send_buffered_batch: buffer content, buffer length and recovery state arbitrary afterwards"]
CLAUSES = {"a message keeps one unique sequence number across resends": "assign_sequence_number postconditions (idempotent, strictly increasing counter)",
           "every message produced while disconnected is delivered after reconnection / none stranded once caught up":
               "_post_async buffers in every connection-down state and after every failed attempt; _buffer_message appends and keeps the rest; "
               "_send_buffered_batch re-posts exactly the copy it cleared and reports caught-up only on an empty buffer. "
               "NOT covered: task interleavings, cancellation of the transmit task mid-batch, messages posted in state Started",
           "delivered more than once only if an earlier attempt failed": "_post_async: exactly one attempt per call, re-buffered iff it failed",
           "run data buffered for a run reaches the aggregator": "NOT covered (aggregator side, ordering across gather)"}
EXPLANATION = ("Per-function contracts on the four functions that number, buffer, post and re-post messages; ghost logs of delivery attempts and "
               "buffer calls; call-site obligations at the buffer clear and at the re-posting gather.")


def replay(obligation, witness):
    import contracts.c27_native as n
    r = n.outage_and_catch_up()
    if not r["violated"] and "_post_async" in obligation:
        r = n.two_sends_in_flight_when_the_connection_closes()
    return {"confirmed": bool(r["violated"]), **r}


REPLAY_WITHOUT_WITNESS = True


def _nat():
    import contracts.c27_native as n
    r = n.outage_and_catch_up()
    return {"ok": not r["violated"], "observation": r}


def _nat2():
    import contracts.c27_native as n
    r = n.two_sends_in_flight_when_the_connection_closes()
    return {"ok": not r["violated"], "observation": r}


NATIVE = [("native:one-outage-with-a-failing-resend", _nat), ("native:two-sends-in-flight-when-the-connection-closes", _nat2)]
BOUNDED = ["two native scenarios (two posts in flight when the connection closes; one outage on the real EngineRunner/EngineDispatcher methods (two messages, one failing resend): bounded, not counted"]
