"""Native harness for the real aggregator FromEngine with fake repositories / publisher (replays for C28-C30)."""
import asyncio
import contextlib


class Counts:
    def __init__(self):
        self.plot_logs, self.recent_runs, self.recent_engines, self.tag_rows = [], [], [], []


def make(counts: Counts):
    import openpectus.aggregator.aggregator as agg
    import openpectus.aggregator.models as Mdl

    class FakeDb:
        @staticmethod
        @contextlib.contextmanager
        def create_scope():
            yield

        @staticmethod
        def scoped_session():
            return None

    class PlotRepo:
        def __init__(self, s): pass
        def create_plot_log(self, engine_data, run_id): counts.plot_logs.append(run_id)
        def store_new_tag_info(self, *a): pass
        def store_tag_values(self, engine_id, run_id, tag_values): counts.tag_rows.append((run_id, [(t.name, t.tick_time, t.value) for t in tag_values]))

    class RunRepo:
        def __init__(self, s): pass
        def store_recent_run(self, engine_data, archive=None, archive_filename=None): counts.recent_runs.append(engine_data.run_data.run_id)
        def get_by_run_id(self, run_id): return object() if run_id in counts.recent_runs else None

    class EngRepo:
        def __init__(self, s): pass
        def store_recent_engine(self, engine_data): counts.recent_engines.append((engine_data.engine_id, engine_data.run_data.run_id if engine_data.has_run() else None))
        def get_recent_engine_by_engine_id(self, engine_id): return None

    class Pub:
        def __getattr__(self, name):
            async def coro(*a, **k):
                return None
            return coro
    agg.database = FakeDb
    agg.PlotLogRepository, agg.RecentRunRepository, agg.RecentEngineRepository = PlotRepo, RunRepo, EngRepo
    emap = {}
    fe = agg.FromEngine(emap, Pub(), Pub())
    return agg, Mdl, fe, emap


def run_in_loop(fn):
    async def main():
        r = fn()
        await asyncio.sleep(0)
        return r
    return asyncio.run(main())


def scenario_duplicate_run_started():
    import openpectus.protocol.engine_messages as EM
    c = Counts()
    agg, Mdl, fe, emap = make(c)

    def body():
        ed = Mdl.EngineData("E", "pc", "v", "uod", "a", "e", "f", "loc")
        emap["E"] = ed
        m = EM.RunStartedMsg(engine_id="E", run_id="R1", started_tick=1.0)
        fe.run_started(m)
        fe.run_started(m)          # duplicated / resent notification
        stop = EM.RunStoppedMsg(engine_id="E", run_id="R1", runlog=Mdl.RunLog.empty(), method_state=Mdl.MethodState.empty(), archive=None, archive_filename=None)
        fe.run_stopped(stop)
        fe.run_stopped(stop)       # duplicated stop
    run_in_loop(body)
    return {"violated": c.plot_logs.count("R1") != 1 or c.recent_runs.count("R1") != 1,
            "plot_logs": c.plot_logs, "recent_runs": c.recent_runs,
            "scenario": "run_started(R1) x2, run_stopped(R1) x2"}


def scenario_run_started_resent_after_the_run_stopped():
    """run_started(R1), run_stopped(R1), then a late resent run_started(R1): still one plot log and one recent run for R1"""
    import openpectus.protocol.engine_messages as EM
    c = Counts()
    agg, Mdl, fe, emap = make(c)

    def body():
        ed = Mdl.EngineData("E", "pc", "v", "uod", "a", "e", "f", "loc")
        emap["E"] = ed
        m = EM.RunStartedMsg(engine_id="E", run_id="R1", started_tick=1.0)
        stop = EM.RunStoppedMsg(engine_id="E", run_id="R1", runlog=Mdl.RunLog.empty(), method_state=Mdl.MethodState.empty(), archive=None, archive_filename=None)
        fe.run_started(m)
        fe.run_stopped(stop)
        fe.run_started(m)          # resent after the run has ended
        fe.run_stopped(stop)       # ... and its stop resent as well
    run_in_loop(body)
    return {"violated": c.plot_logs.count("R1") != 1 or c.recent_runs.count("R1") != 1, "plot_logs": c.plot_logs, "recent_runs": c.recent_runs,
            "scenario": "run_started(R1), run_stopped(R1), run_started(R1) resent, run_stopped(R1) resent"}


if __name__ == "__main__":
    print(scenario_duplicate_run_started())
    print(scenario_run_started_resent_after_the_run_stopped())


def make_frontend():
    import openpectus.aggregator.aggregator as agg
    import openpectus.aggregator.models as Mdl

    class Pub:
        def __init__(self):
            class _M:
                class event_notifier:
                    @staticmethod
                    def register_subscribe_event(cb): pass
            class _E:
                methods = _M
            self.pubsub_endpoint = _E

        def register_on_disconnect(self, cb): pass

        def __getattr__(self, name):
            async def coro(*a, **k):
                return None
            return coro
    emap = {}
    ff = agg.FromFrontend(emap, None, Pub(), Pub())
    return agg, Mdl, ff, emap


def scenario_two_connections_then_both_close():
    agg, Mdl, ff, emap = make_frontend()
    from openpectus.aggregator.frontend_publisher import PubSubTopic

    async def body():
        emap["E"] = Mdl.EngineData("E", "pc", "v", "uod", "a", "e", "f", "loc")
        topic = f"{PubSubTopic.DEAD_MAN_SWITCH}/u1"
        await ff.user_subscribed_pubsub("c1", [topic])
        await ff.user_subscribed_pubsub("c2", [topic])
        await ff.register_active_user("E", "u1", "User One")
        await ff.on_ws_disconnect("c1")
        still = "u1" in emap["E"].active_users
        await ff.on_ws_disconnect("c2")          # last live connection closes
        return still, "u1" in emap["E"].active_users
    still_after_first, listed_after_last = asyncio.run(body())
    return {"violated": listed_after_last or not still_after_first, "listed_after_first_close": still_after_first,
            "listed_after_last_close": listed_after_last, "connection_table": dict(ff.dead_man_switch_user_ids),
            "scenario": "user u1 connects twice (c1, c2), registers on unit E, closes c1 then c2"}


def scenario_concurrent_saves():
    """two saves based on the same version run concurrently; the dispatcher's rpc_call yields to the event loop"""
    agg, Mdl, ff, emap = make_frontend()

    class Disp:
        async def rpc_call(self, engine_id, message=None):
            await asyncio.sleep(0)          # the engine round-trip: other coroutines run here
            import openpectus.protocol.aggregator_messages as AM
            return AM.SuccessMessage()
    ff.dispatcher = Disp()

    async def body():
        emap["E"] = Mdl.EngineData("E", "pc", "v", "uod", "a", "e", "f", "loc")
        v0 = emap["E"].method.version
        m1 = Mdl.Method(lines=[Mdl.MethodLine(id="1", content="Mark: A")], version=v0, last_author="a")
        m2 = Mdl.Method(lines=[Mdl.MethodLine(id="1", content="Mark: B")], version=v0, last_author="b")
        u1, u2 = Mdl.Contributor(id="user-1", name="x"), Mdl.Contributor(id="user-2", name="y")   # two DIFFERENT users
        res = await asyncio.gather(ff.save_method("E", m1, u1), ff.save_method("E", m2, u2), return_exceptions=True)
        return v0, res, emap["E"].method.version, emap["E"].method.lines[0].content
    v0, res, v_end, content = asyncio.run(body())
    accepted = [r for r in res if isinstance(r, int)]
    return {"violated": len(accepted) > 1, "based_on_version": v0, "results": [str(r) for r in res], "accepted": len(accepted),
            "final_version": v_end, "surviving_content": content,
            "scenario": "two save_method calls by two different users based on the same version, interleaved at the dispatcher await"}


def scenario_user_on_two_units():
    """one user, one connection, registered on two units; the connection closes"""
    agg, Mdl, ff, emap = make_frontend()
    from openpectus.aggregator.frontend_publisher import PubSubTopic

    async def body():
        for e in ("E1", "E2", "E3"):
            emap[e] = Mdl.EngineData(e, "pc", "v", "uod", "a", "e", "f", "loc")
        await ff.user_subscribed_pubsub("c1", [f"{PubSubTopic.DEAD_MAN_SWITCH}/u1"])
        await ff.user_subscribed_pubsub("c9", [f"{PubSubTopic.DEAD_MAN_SWITCH}/u2"])
        await ff.register_active_user("E1", "u1", "User One")
        await ff.register_active_user("E3", "u1", "User One")
        await ff.register_active_user("E3", "u2", "User Two")
        await ff.on_ws_disconnect("c1")
        return {e: sorted(emap[e].active_users) for e in emap}
    listed = asyncio.run(body())
    bad = [e for e, us in listed.items() if "u1" in us]
    return {"violated": bool(bad) or "u2" not in listed["E3"], "active_users_after_last_close": listed,
            "scenario": "u1 registered on E1 and E3 with one connection, u2 on E3; u1's connection closes"}
