"""C40 — Requests from the aggregator apply atomically between ticks (openpectus/engine/engine.py), ownership ghost for Engine._lock.

Engine.tick runs its execute phase (tracking, interpreter, calculated tags, command manager, tag notification, write phase) under
`self._lock`. The state those components own is therefore only consistent BETWEEN two execute phases. Contract generated for every
request entry point of Engine (the methods the engine message handlers call from the websocket thread): every call into an owned
component (interpreter, method manager, command manager, tracking, run-state validation, error state) is made while `self._lock`
is held (call-site precondition, checked on every path of the real body; lock acquisition tracked as a ghost depth by the executor).
A request that runs without the lock can interleave with the execute phase of a tick: it is then NOT applied as if between two ticks."""
import z3
from pyvc.spec import Contract

PROP = "C40"
E = "openpectus.engine.engine:Engine."
LEVEL = "other"
ENTRY_POINTS = ["execute_control_command_from_user", "inject_code", "set_method", "cancel_instruction", "force_instruction"]
# set_method delegates to _set_method under the lock (after the repair): the delegate is followed, not treated as opaque
OWNED_PREFIXES = ["self._command_manager.", "self.interpreter.", "self._method_manager.", "self.method_manager.", "self.tracking.",
                  "self._validate_control_command", "self.set_error_state", "self.clear_error_state"]


def owned_call(ctx, args, kwargs):
    """call into a component owned by Engine._lock: must be made with the lock held (the call itself is not followed)"""
    depth = ctx.ghost.get("$lock:self._lock", 0)
    ctx.check_w(f"owned-state-touched-only-under-the-engine-lock[{ctx.text}]", z3.BoolVal(depth > 0), lambda m: {"call": ctx.text}, "call-site")
    return ctx.fresh("owned_result", None)


owned_call.modifies = []
CALLS = {p + "*" if p.endswith(".") else p: owned_call for p in OWNED_PREFIXES}
CONTRACTS = [Contract(target=E + m, types={"self": "Engine"}, calls=CALLS, raises=None,
                      options={"lenient": True, "protected_prefixes": (), "opaque_subscript": True})
             for m in ENTRY_POINTS]
TARGETS = [c.key for c in CONTRACTS]

# ---- reads of owned state: a request must not even LOOK at run state / component state outside the lock (check-then-act) ----------------
import ast as _ast                                                                    # noqa: E402
OWNED_COMPONENTS = {"method_manager", "_method_manager", "interpreter", "_interpreter", "tracking", "_tracking", "_command_manager"}
OWNED_FLAGS = {"_runstate_started", "_runstate_paused", "_runstate_holding", "_runstate_stopping", "_last_error", "_prev_state"}


def _is_self(n):
    return isinstance(n, _ast.Name) and n.id == "self"


def lemma_reads(ctx):
    """for every request entry point (and the private delegate it calls under the lock is NOT exempted: it is only ever called with the
    lock held, which the call-site contract above checks): every read of a run-state flag and every attribute access THROUGH an owned
    component lies lexically inside `with self._lock:`"""
    repo = ctx.ex.repo
    for m in ENTRY_POINTS:
        fi = repo.func(E + m)
        locked = set()
        for w in _ast.walk(fi.node):
            if isinstance(w, _ast.With) and any(_ast.unparse(i.context_expr) == "self._lock" for i in w.items):
                for st_ in w.body:
                    for n in _ast.walk(st_):
                        locked.add(id(n))
        bad, seen = [], 0
        for n in _ast.walk(fi.node):
            hit = None
            if isinstance(n, _ast.Attribute) and _is_self(n.value) and n.attr in OWNED_FLAGS:
                hit = _ast.unparse(n)
            elif isinstance(n, _ast.Attribute) and isinstance(n.value, _ast.Attribute) and _is_self(n.value.value) \
                    and n.value.attr in OWNED_COMPONENTS:
                hit = _ast.unparse(n)
            if hit is None:
                continue
            seen += 1
            if id(n) not in locked:
                bad.append({"line": n.lineno, "expression": hit})
        # one obligation per entry point (stable name: it is in the baseline even when the entry point reads nothing itself)
        ctx.check_w(f"owned-state-read-only-under-the-engine-lock[{m}]", z3.BoolVal(not bad),
                    (lambda b_, q_, c_: (lambda mo: {"function": q_, "reads_outside_the_lock": b_, "owned_reads_in_the_function": c_}))(bad, fi.qualname, seen),
                    "call-site")


LEMMAS = [("owned-state-reads", lemma_reads)]
TRUSTED = ["the five Engine methods listed are the request entry points (engine_message_handlers / engine runner call exactly these for method "
           "edits, injection, control commands, cancel and force)", "threading.Lock semantics; Engine.tick holds the lock for its whole execute phase (read in the code, "
           "exercised by the native schedule, not a proved obligation)", "properties method_manager / interpreter / tracking reads themselves are not counted, only calls"]
CLAUSES = {"requests take effect as if applied entirely between two ticks": "call-site lock ownership on every path of every entry point",
           "no request is lost": "NOT covered (command queue / websocket delivery)"}
EXPLANATION = "Ownership ghost: owned components are only called with Engine._lock held."


def replay(obligation, witness):
    """deterministic two-thread schedule on the real Engine: does the request run inside the execute phase of a tick?"""
    import contracts.c40_native as n
    for k in ENTRY_POINTS:
        if f"Engine.{k}/" in obligation or f"Engine._{k}/" in obligation:
            r = n.request_runs_inside_a_tick(k)
            return {"confirmed": bool(r["violated"]), **r}
    return {"confirmed": False}


REPLAY_WITHOUT_WITNESS = True


def _nat(k):
    def run():
        import contracts.c40_native as n
        r = n.request_runs_inside_a_tick(k)
        return {"ok": not r["violated"], "observation": r}
    return run


NATIVE = [(f"native:{k}-waits-for-the-tick-to-finish", _nat(k)) for k in ENTRY_POINTS]
BOUNDED = ["one deterministic two-thread schedule per entry point on the real Engine (request issued while the ticking thread is inside interpreter.tick): bounded, not counted"]
