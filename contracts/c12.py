"""C12 — Cancel and Force requests take effect exactly as offered (node-level mechanism + tracking + timed Pause/Hold).

Covered: (a) SupportCancelForce.cancel / force (and the NodeWithCondition variants): accepted exactly when the item is currently
offered as cancellable / forcible, otherwise nothing changes; (b) Tracking.mark_cancelled / mark_forced on a node that is not
cancellable / forcible raise and add no record state ("rejected and change nothing"); (c) a cancelled timed Pause / Hold ends at once
(contracts of Pause.cancel / Hold.cancel, shared with C06)."""
import z3
from pyvc.spec import Contract
import contracts.c06 as c06

PROP = "C12"
A = "openpectus.lang.model.ast:"
T = "openpectus.lang.exec.tracking:Tracking."
FLAGS = ["_cancellable", "_cancelled", "_forcible", "_forced"]
SAME = " and ".join(f"self.{f} == old(self.{f})" for f in FLAGS)
TYPES = {f"SupportCancelForce.{f}": "bool" for f in FLAGS}
TYPES.update({f"NodeWithCondition.{f}": "bool" for f in FLAGS})
TYPES.update({"NodeWithCondition.activated": "bool"})


def law(cls, variant=""):
    ty = dict(TYPES, self=cls)
    cancel = Contract(target=A + "SupportCancelForce.cancel", variant=variant, types=ty, self_class=cls, raises={},
                      ensures=[("accepted-exactly-when-offered", "result == old(self.cancellable)"),
                               ("accepted=>cancelled-and-no-longer-offered", "implies(result, self.cancelled and not self.cancellable and not self.forcible)"),
                               ("rejected=>nothing-changes", f"implies(not result, {SAME})"),
                               ("force-flag-untouched", "self._forced == old(self._forced)")],
                      modifies={"_cancelled": ["self"]})
    force = Contract(target=A + "SupportCancelForce.force", variant=variant, types=ty, self_class=cls, raises={},
                     ensures=[("accepted-exactly-when-offered", "result == old(self.forcible)"),
                              ("accepted=>forced-and-no-longer-offered", "implies(result, self.forced and not self.forcible and not self.cancellable)"),
                              ("rejected=>nothing-changes", f"implies(not result, {SAME})"),
                              ("cancel-flag-untouched", "self._cancelled == old(self._cancelled)")],
                     modifies={"_forced": ["self"]})
    if cls == "NodeWithCondition":
        # a Watch / Alarm whose condition has fired is running its body: the interpreter looks at `cancelled` / `forced` only before
        # and while awaiting activation, so a request accepted after activation could not take effect ("never runs its body")
        cancel.ensures.append(("an-activated-watch-is-not-cancellable", f"implies(old(self.activated), not result and {SAME})"))
        force.ensures.append(("an-activated-watch-is-not-forcible", f"implies(old(self.activated), not result and {SAME})"))
    return [cancel, force]


node_laws = law("SupportCancelForce") + law("NodeWithCondition", "NodeWithCondition")


# ---- Tracking.mark_cancelled / mark_forced ---------------------------------------------------------------------------------------
def add_state(ctx, args, kwargs):
    """Tracking._add_record_state(...): one record state is added (ghost log)"""
    ctx.ghost.setdefault("record_states", []).append(args)
    return ctx.none()


add_state.modifies = []


def opaque(name, ty=None):
    def h(ctx, args, kwargs):
        return ctx.fresh(name, ty)
    h.modifies = []
    h.__doc__ = f"{name}: lookup without side effect"
    return h


def not_skipped(ctx, args, kwargs):
    """silently_skip(instance): False for the instructions this property is about (Start/Stop/Restart records are skipped)"""
    from pyvc.smt import mk_bool
    from pyvc.state import SV
    from pyvc.repo import Ty
    return SV(mk_bool(False), Ty("bool"))


not_skipped.modifies = []
TCALLS = {"self._add_record_state": add_state, "self.silently_skip": not_skipped,
          "self.get_record_by_instance": opaque("record", "RuntimeRecord"), "self.get_known_node_by_id": opaque("node", "Node"),
          "self.create_node_instance_id": opaque("instance_id", "str")}
TT = dict(TYPES, self="Tracking", instance="Node", node="Node", **{"RuntimeRecord.last_instance_id": "str | None", "RuntimeRecord.node_id": "str"})
for f in FLAGS:
    TT[f"Node.{f}"] = "bool"


def mark_exit(what, offered):
    def on_exit(ctx, kind, result):
        states = ctx.ghost.get("record_states", [])
        was = ctx.spec_bool(f"old(instance.{offered})")
        B = z3.BoolVal
        if kind == "return":
            ctx.check(f"{what}-accepted-only-when-offered", was, "postcondition")
            ctx.check("accepted=>exactly-one-record-state", B(len(states) == 1), "postcondition")
        else:
            ctx.check("rejected=>no-record-state-added", B(len(states) == 0), "exceptional-postcondition")
            ctx.check("rejected=>node-flags-unchanged",
                      ctx.spec_bool(" and ".join(f"instance.{f} == old(instance.{f})" for f in FLAGS)), "exceptional-postcondition")
    return on_exit


mark_cancelled = Contract(target=T + "mark_cancelled", types=TT, calls=TCALLS, raises={"ValueError": None},
                          requires=["update_node == True"], on_exit=mark_exit("cancel", "cancellable"),
                          options={"raises_iff_partial": True})
# mark_forced looks the node up by id: the looked-up node is the instance itself for node instances (assumed)
mark_forced = Contract(target=T + "mark_forced", types=TT, raises={"ValueError": None}, requires=["update_node == True"],
                       calls=dict(TCALLS, **{"self.get_known_node_by_id": lambda ctx, a, k: ctx.local("instance")}),
                       on_exit=mark_exit("force", "forcible"))



def mark_request_exit(ctx, kind, result):
    """mark_cancelled(request): the Cancelled state belongs to the invocation of THAT request (its own instance id), not to whatever
    invocation of the instruction happens to be the latest (an Alarm body can invoke the same command again while it is running)"""
    if kind != "return":
        return
    from pyvc.smt import SVs
    states = ctx.ghost.get("record_states", [])
    ctx.check("exactly-one-record-state", z3.BoolVal(len(states) == 1), "postcondition")
    if states:
        ctx.check("the-cancelled-state-is-recorded-for-the-invocation-of-that-request",
                  SVs(states[0][0].term) == SVs(ctx.spec("instance.instance_id").term), "postcondition")


mark_cancelled_req = Contract(target=T + "mark_cancelled", variant="request", raises={"ValueError": None},
                              types=dict(TT, instance="CommandRequest", **{"CommandRequest.instance_id": "str"}), calls=TCALLS,
                              on_exit=mark_request_exit, options={"lenient": True})
timed = [c for c in c06.CONTRACTS if c.target.endswith(".cancel")]
CONTRACTS = node_laws + [mark_cancelled, mark_cancelled_req, mark_forced] + [c for c in c06.CONTRACTS if not c.target.endswith(".cancel")] + timed
TARGETS = [c.key for c in node_laws + [mark_cancelled, mark_cancelled_req, mark_forced] + timed]
LEVEL = "other"
TRUSTED = ["Tracking lookups (record by instance, node by id, instance id creation) have no side effects; _add_record_state adds one state",
           "mark_forced: the node found by id is the node passed in", "run-state assumptions of C06 for Pause.cancel / Hold.cancel"]
CLAUSES = {"requests for items not offered as cancellable / forcible are rejected and change nothing": "node level: cancel()/force() laws (proved); tracking level: mark_cancelled / mark_forced raise and add no record state (proved). NOT covered: CommandManager.cancel_instruction / force_instruction for command items (run-log `cancellable` of commands is computed in runlog.py, not under contract)",
           "a cancelled timed Pause or Hold ends at once": "Pause.cancel / Hold.cancel postconditions (proved, shared with C06)",
           "a cancelled Watch never runs its body; forced Watch/Wait/threshold proceed; a cancelled UOD command is finalized": "NOT covered (interpreter generators / CommandManager)"}
EXPLANATION = "Partial claim: the cancel/force mechanism at node and tracking level and the timed Pause/Hold cancel, all unbounded; command-item and interpreter clauses are not covered."


def replay(obligation, witness):
    """Native oracle: node-level laws on real WatchNode / AlarmNode objects in every flag combination; command items on the real engine."""
    if "instruction-item-that-already-completed" in obligation or "command-instruction-that-has-not-started" in obligation:
        import contracts.c15_native as n15
        r = n15.force_of_a_completed_wait() if "Forced" in obligation else n15.cancel_of_a_command_awaiting_its_threshold()
        return {"confirmed": bool(r["violated"]), **r}
    if "the-cancelled-state-is-recorded-for-the-invocation" in obligation:
        import contracts.c15_native as n15
        r = n15.alarm_refiring_over_a_long_running_command()
        return {"confirmed": bool(r["violated"]), **r}
    if "CommandManager." in obligation:
        import contracts.c12_native as n
        r = n.request_for_a_completed_command_item("force" if "force_instruction" in obligation else "cancel")
        return {"confirmed": bool(r["violated"]), **r}
    import itertools
    import openpectus.lang.model.ast as p
    for cls in (p.WatchNode, p.AlarmNode):
        for cancelled, forced, activated, completed in itertools.product((False, True), repeat=4):
            for op in ("cancel", "force"):
                n = cls()
                n._cancelled, n._forced, n.activated, n.completed = cancelled, forced, activated, completed
                before = (n._cancelled, n._forced)
                offered = n.cancellable if op == "cancel" else n.forcible
                r = getattr(n, op)()
                after = (n._cancelled, n._forced)
                bad = None
                if r != offered:
                    bad = "accepted although not offered / refused although offered"
                elif activated and (r or after != before):
                    bad = f"{op} accepted on a node whose body already started (activated)"
                elif not r and after != before:
                    bad = "a rejected request changed the node"
                if bad:
                    return {"confirmed": True, "violated": True, "class": cls.__name__, "operation": op, "what": bad,
                            "flags": {"cancelled": cancelled, "forced": forced, "activated": activated, "completed": completed}, "result": r}
    return {"confirmed": False}


REPLAY_WITHOUT_WITNESS = True


# ---- (d) command items: CommandManager.cancel_instruction / force_instruction -----------------------------------------------------------
# A run-log item of a UOD command is offered as cancellable / forcible only until it carries a conclusive state, i.e. until the command has
# completed, failed (cleaned up: cancelled + finalized) or been cancelled. A request for such an item must be rejected and change nothing.
import z3 as _z3                                   # noqa: E402
from pyvc.smt import BV as _BV                     # noqa: E402
CMg = "openpectus.engine.command_manager:CommandManager."
ENDED = "(command._exec_complete or command._cancelled or command._finalized)"


def _ended(ctx):
    cmd = ctx.ghost.get("cmd")
    if cmd is None:
        return _z3.BoolVal(False)
    rd = lambda f: _BV(ctx.st.read(f, ctx.rid(cmd)))
    h0 = ctx.ex.top_frame.entry_heap
    from pyvc.smt import field_sort
    rd0 = lambda f: _BV(_z3.Select(h0.get(f, _z3.Const("H0!" + f, field_sort(f))), ctx.rid(cmd)))
    return _z3.Or(rd0("_exec_complete"), rd0("_cancelled"), rd0("_finalized"))


def get_command(ctx, args, kwargs):
    """Tracking.get_command(instance_id): the command object of that run-log item, or None for a plain instruction node"""
    if ctx.choose(2, "item is a command") == 1:
        return ctx.none()
    cmd = ctx.fresh("command", "EngineCommand")      # the life-cycle flags and their getters live in EngineCommand
    ctx.ex.assume_type(cmd.term, cmd.ty, ctx.fr)
    ctx.ghost["cmd"] = cmd
    return cmd


def effect(label):
    def h(ctx, args, kwargs):
        ctx.check_w(f"a-command-item-that-already-ended-is-left-alone[{label}]", _z3.Not(_ended(ctx)), lambda m: {"effect": label}, "call-site")
        if ctx.ghost.get("cmd") is None and ctx.local("node") is not None and label.startswith("tracking state"):
            # plain instruction item (no command object): the run log offers it neither as cancellable nor as forcible once it carries a
            # conclusive state, and does not list a command instruction that is still waiting for its threshold at all
            ctx.check_w(f"an-instruction-item-that-already-completed-is-left-alone[{label}]", _z3.Not(ctx.spec_bool("node.completed")),
                        lambda m: {"effect": label, "node": "completed"}, "call-site")
            if "Cancelled" in label:
                # forcing a waiting threshold is a legitimate request; CANCELLING a command instruction that has no command object yet
                # cannot take effect (the interpreter starts it regardless), so it must be refused
                ctx.check_w(f"a-command-instruction-that-has-not-started-is-left-alone[{label}]",
                            _z3.Not(ctx.spec_bool("is_instance(node, 'CommandBaseNode')")),
                            lambda m: {"effect": label, "node": "command instruction without a command object (awaiting its threshold)"}, "call-site")
        return ctx.fresh("opaque", None)
    h.modifies = []
    h.__doc__ = f"{label}: an effect of accepting the request (recorded; must not happen for an item that is no longer offered)"
    return h


def truth(ctx, args, kwargs):
    """Tracking.has_instance_id(id): True (the item exists; unknown ids are rejected before anything else)"""
    from pyvc.smt import mk_bool
    from pyvc.state import SV
    from pyvc.repo import Ty
    return SV(mk_bool(True), Ty("bool"))


for _h in (get_command, truth):
    _h.modifies = []
GT_TYPES = {"self": "CommandManager", "instance_id": "str", "EngineCommand._exec_complete": "bool", "EngineCommand._cancelled": "bool",
            "EngineCommand._finalized": "bool", "CommandManager.in_executing_loop": "bool", "command": "EngineCommand", "node": "Node",
            "Node.completed": "bool"}
GCALLS = {"self.tracking.has_instance_id": truth, "self.tracking.get_command": get_command, "self.tracking.get_record_by_instance_id": opaque("record", "RuntimeRecord"),
          "self.tracking.get_known_node_by_id": opaque("node", "Node"), "self._get_executing_command_request": opaque("request", "CommandRequest | None"),
          "self._cancel_command": effect("cancel the executing request"), "command.cancel": effect("command.cancel()"),
          "command.finalize": effect("command.finalize()"), "command.force": effect("command.force()"),
          "self.tracking.mark_cancelled": effect("tracking state Cancelled"), "self.tracking.mark_forced": effect("tracking state Forced"),
          "self._commit_commands_done": opaque("none")}
cm_cancel = Contract(target=CMg + "cancel_instruction", types=GT_TYPES, calls=GCALLS, raises=None, requires=["not self.in_executing_loop"],
                     options={"lenient": True, "protected_prefixes": (), "opaque_subscript": True})
cm_force = Contract(target=CMg + "force_instruction", types=GT_TYPES, calls=GCALLS, raises=None, requires=["not self.in_executing_loop"],
                    options={"lenient": True, "protected_prefixes": (), "opaque_subscript": True})
CONTRACTS = CONTRACTS + [cm_cancel, cm_force]
TARGETS = TARGETS + [cm_cancel.key, cm_force.key]


def _natc(kind):
    def run():
        import contracts.c12_native as n
        r = n.request_for_a_completed_command_item(kind)
        return {"ok": not r["violated"], "observation": r}
    return run


NATIVE = [("native:cancel-of-a-completed-command-item-is-rejected", _natc("cancel")), ("native:force-of-a-completed-command-item-is-rejected", _natc("force"))]
BOUNDED = ["two native scenarios on the real engine (request for a completed UOD command item): bounded, not counted"]
