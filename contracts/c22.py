"""C22 — Command argument patterns accept exactly their documented language (openpectus/lang/exec/regex.py, uod.py).

Function-against-spec-function, per parameter instance: the REAL RegexNumber / RegexNumberOptional / RegexCategorical is called
(natively, current source) on each option/unit list of a fixed family (plain lists, prefixes of one another, regex metacharacters);
the pattern it returns is parsed with CPython's own sre parser and translated to a z3 regular expression (pyvc/pyre.py); the
obligation `forall s: re.search(pattern, s) is not None  <=>  s in SPEC(parameters)` is discharged by the solver over ALL strings.
The spec language is written from the property statement. Bounded in the parameter lists (finite family, stated), unbounded in
the argument strings. Introspection (get_units / get_exclusive_options / get_additive_options) and the delivered groups are checked
natively on the same family (bounded)."""
import itertools
import re
import z3
from pyvc.spec import Contract
from pyvc.pyre import search_language, space_class, lit, union, OutsideSubset

PROP = "C22"
LEVEL = "other"
CONTRACTS = []
TARGETS = []

UNIT_FAMILY = [None, ["s", "min", "h"], ["kg", "g"], ["L/h"], ["%"], ["m", "m2", "min"], ["(x)", "+"], [".", "a.b"], ["a|b"]]
CAT_FAMILY = [(["Open", "Closed"], None), (["Closed"], ["VA01", "VA02", "VA03"]), (None, ["VA01", "VA02"]), (["a+b"], ["c"]),
              (["x.y"], ["(z)", "[w]"]), (["A"], ["A", "AB", "B"])]
D = z3.Plus(z3.Range("0", "9"))
DS = z3.Star(z3.Range("0", "9"))
WS = z3.Star(space_class())


def num_spec(units, non_negative, int_only, optional=False):
    """decimal numbers (signed unless non_negative, integers only when int_only), followed by one of the declared units when units
    are declared; surrounding white space allowed"""
    sign = z3.Re("") if non_negative else z3.Option(z3.Re("-"))
    body = D if int_only else z3.Union(z3.Concat(D, z3.Option(z3.Concat(z3.Re("."), DS))), z3.Concat(z3.Re("."), D))
    parts = [WS, z3.Concat(sign, body), WS]
    if units:
        parts += [union(lit(u) for u in units), WS]
    r = z3.Concat(*parts)
    return z3.Union(r, WS) if optional else r


def cat_spec(excl, add):
    """exactly one exclusive option, or a '+'-separated list of additive options; never empty; trailing white space allowed"""
    alts = []
    if excl:
        alts.append(union(lit(o) for o in excl))
    if add:
        a = union(lit(o) for o in add)
        alts.append(z3.Concat(a, z3.Star(z3.Concat(z3.Re("+"), a))))
    return z3.Concat(union(alts), WS)


def _real(name, *args, **kw):
    import openpectus.lang.exec.regex as R
    return getattr(R, name)(*args, **kw)


def _wit(x):
    def w(model):
        v = model.eval(x, model_completion=True)
        return {"s": v.as_string() if hasattr(v, "as_string") else str(v)}
    return w


def _pystr(s):
    """z3 string literal escapes (\\u{..}) -> python str"""
    return re.sub(r"\\u\{([0-9a-fA-F]+)\}", lambda m: chr(int(m.group(1), 16)), s)


def number_lemma(units, nn, io, optional):
    def script(ctx):
        fn = "RegexNumberOptional" if optional else "RegexNumber"
        pat = _real(fn, units, non_negative=nn, int_only=io)
        R = search_language(pat)
        S = num_spec(units, nn, io, optional)
        x = z3.String("arg")
        ctx.check_w("accepts-exactly-the-documented-numbers-with-units", z3.InRe(x, R) == z3.InRe(x, S), _wit(x))
    return script


def categorical_lemma(excl, add):
    def script(ctx):
        pat = _real("RegexCategorical", exclusive_options=excl, additive_options=add)
        R = search_language(pat)
        S = cat_spec(excl, add)
        x = z3.String("arg")
        inR, inS = z3.InRe(x, R), z3.InRe(x, S)
        # the two ways the current pattern is known to over-accept, so that anything ELSE it accepts is still reported
        empty = WS
        opts = union([lit(o) for o in (add or [])] + [z3.Re("+")])
        malformed = z3.Concat(z3.Plus(opts), WS)
        ctx.check_w("every-documented-value-is-accepted", z3.Implies(inS, inR), _wit(x))
        ctx.check_w("an-empty-value-is-never-accepted", z3.Implies(z3.InRe(x, empty), z3.Not(inR)), _wit(x))
        ctx.check_w("additive-options-must-be-separated-by-single-plus-signs",
                    z3.Implies(z3.And(inR, z3.InRe(x, malformed), z3.Not(z3.InRe(x, empty))), inS), _wit(x))
        ctx.check_w("nothing-outside-the-declared-options-is-accepted",
                    z3.Implies(z3.And(inR, z3.Not(z3.InRe(x, malformed)), z3.Not(z3.InRe(x, empty))), inS), _wit(x))
    return script


def introspection_lemma(kind, params):
    """bounded/native: the lists the UI derives from the pattern are those it was built from"""
    def script(ctx):
        from openpectus.lang.exec.uod import RegexNamedArgumentParser
        if kind in ("number", "number-optional"):
            units, = params
            p = RegexNamedArgumentParser(_real("RegexNumber" if kind == "number" else "RegexNumberOptional", units))
            got = p.get_units()
            ctx.check_w("derived-unit-list-is-the-declared-one", z3.BoolVal(got == (units or [])), lambda m: {"declared": units, "derived": got}, "bounded-native")
        else:
            excl, add = params
            p = RegexNamedArgumentParser(_real("RegexCategorical", exclusive_options=excl, additive_options=add))
            ge, ga = p.get_exclusive_options(), p.get_additive_options()
            ctx.check_w("derived-exclusive-options-are-the-declared-ones", z3.BoolVal(ge == (excl or [])), lambda m: {"declared": excl, "derived": ge}, "bounded-native")
            ctx.check_w("derived-additive-options-are-the-declared-ones", z3.BoolVal(ga == (add or [])), lambda m: {"declared": add, "derived": ga}, "bounded-native")
    return script


def delivery_lemma(units):
    """bounded/native: for generated documented arguments the groups `number` / `number_unit` are the parts they were built from"""
    def script(ctx):
        pat = _real("RegexNumber", units)
        ok, bad = True, None
        for num, ws1, ws2, u in itertools.product(["0", "12", "-3", "4.", "5.25", ".5", "-.75"], ["", " "], ["", " ", "  "], (units or [None])):
            s = ws1 + num + ws2 + (u or "")
            m = re.search(pat, s)
            if m is None or m.group("number") != num or (u is not None and m.group("number_unit") != u):
                ok, bad = False, (s, m.groupdict() if m else None)
                break
        ctx.check_w("number-and-unit-are-delivered-unchanged", z3.BoolVal(ok), lambda m: {"argument_and_groups": bad}, "bounded-native")
    return script


def _name(x):
    return "none" if x is None else "[" + ",".join(x) + "]"


LEMMAS = []
INSTANCES = {}
for _u, _nn, _io in itertools.product(UNIT_FAMILY, (False, True), (False, True)):
    LEMMAS.append((f"RegexNumber(units={_name(_u)},non_negative={_nn},int_only={_io})", number_lemma(_u, _nn, _io, False)))
    INSTANCES[LEMMAS[-1][0]] = ("RegexNumber", (_u, _nn, _io))
for _u in UNIT_FAMILY[:4]:
    LEMMAS.append((f"RegexNumberOptional(units={_name(_u)})", number_lemma(_u, True, False, True)))
    INSTANCES[LEMMAS[-1][0]] = ("RegexNumberOptional", (_u, True, False))
for _e, _a in CAT_FAMILY:
    LEMMAS.append((f"RegexCategorical(exclusive={_name(_e)},additive={_name(_a)})", categorical_lemma(_e, _a)))
    INSTANCES[LEMMAS[-1][0]] = ("RegexCategorical", (_e, _a))
for _u in UNIT_FAMILY:
    LEMMAS.append((f"get_units(RegexNumber(units={_name(_u)}))", introspection_lemma("number", (_u,))))
    LEMMAS.append((f"groups(RegexNumber(units={_name(_u)}))", delivery_lemma(_u)))
for _u in UNIT_FAMILY[:4]:
    LEMMAS.append((f"get_units(RegexNumberOptional(units={_name(_u)}))", introspection_lemma("number-optional", (_u,))))
for _e, _a in CAT_FAMILY:
    LEMMAS.append((f"get_options(RegexCategorical(exclusive={_name(_e)},additive={_name(_a)}))", introspection_lemma("cat", (_e, _a))))


def replay(obligation, witness):
    """replay of a solver counterexample on the real function: call the real builder, re.search the string, compare with the documented language"""
    inst = None
    for name, v in INSTANCES.items():
        if f"/{name}/" in obligation:
            inst = v
    if inst is None:
        # bounded/native obligations carry their own failing input: the parameter list in the obligation name
        return {"confirmed": "derived-" in obligation or "delivered" in obligation, "note": "native evaluation on the real functions (the obligation itself)"}
    if not witness or "s" not in witness:
        return {"confirmed": False, "note": "no counterexample string"}
    s = _pystr(witness["s"])
    fn, params = inst
    if fn == "RegexCategorical":
        excl, add = params
        pat = _real(fn, exclusive_options=excl, additive_options=add)
        accepted = re.search(pat, s) is not None
        body = s.rstrip()
        documented = (body in (excl or [])) or (bool(add) and body != "" and all(p in add for p in body.split("+")))
        return {"confirmed": accepted != documented, "argument": s, "accepted_by_the_real_pattern": accepted,
                "in_the_documented_language": documented, "exclusive_options": excl, "additive_options": add}
    units, nn, io = params
    pat = _real(fn, units, non_negative=nn, int_only=io)
    accepted = re.search(pat, s) is not None
    num = r"%s(?:[0-9]+(?:\.[0-9]*)?|\.[0-9]+)" % ("" if nn else "-?") if not io else r"%s[0-9]+" % ("" if nn else "-?")
    body = s.strip()
    documented = False
    for u in (units or [""]):
        if body.endswith(u) and re.fullmatch(num, body[:len(body) - len(u)].rstrip() if u else body):
            documented = True
    if fn == "RegexNumberOptional" and body == "":
        documented = True
    return {"confirmed": accepted != documented, "argument": s, "accepted_by_the_real_pattern": accepted,
            "in_the_documented_language": documented, "units": units}


REPLAY_WITHOUT_WITNESS = True
BOUNDED = ["parameter lists: a fixed family of 9 unit lists x 4 flag combinations and 6 option-list pairs (plain, prefixes of one another, regex "
           "metacharacters); for each, ALL argument strings are decided by the solver",
           "introspection (get_units / get_*_options) and delivered groups: native evaluation on the same family (generated arguments), bounded"]
TRUSTED = ["CPython's sre parser output and the translation pyvc/pyre.py (cross-checked against re.search on 15 000 sampled strings while building)",
           "z3's sequence/regex solver", "Unicode white space = str.isspace over z3's character range"]
CLAUSES = {"numeric patterns accept exactly decimal numbers ... optionally followed by one of the declared units": "RegexNumber / RegexNumberOptional lemmas (a unit is REQUIRED when units are declared: the function's docstring reading; the statement's `optionally` is read as `when declared`)",
           "deliver the number and unit unchanged": "groups(...) lemmas, bounded/native",
           "categorical patterns accept exactly one exclusive option or a '+'-separated list of additive options, never an empty value": "RegexCategorical lemmas, four clauses",
           "derived unit and option lists are exactly those it was built from": "get_units / get_options lemmas, bounded/native"}
EXPLANATION = "Per-instance language equivalence between the pattern built by the real function and the documented language, over all strings."
