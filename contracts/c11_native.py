"""Native scenario for C11: UOD commands with counting callbacks (completing / failing / cancelled by a newer request / stopped):
initialize once before the first execute, finalize exactly once."""
import logging


def lifecycle_pairing():
    from openpectus.lang.exec.uod import UodBuilder, UodCommand
    from openpectus.test.engine.utility_methods import EngineTestRunner
    logging.disable(logging.CRITICAL)
    log = []

    def mk(name, ticks, fail_at=None):
        def init(cmd: UodCommand):
            log.append((name, id(cmd), "init"))

        def exe(cmd: UodCommand, **kw):
            log.append((name, id(cmd), "exec"))
            if fail_at is not None and cmd.get_iteration_count() >= fail_at:
                raise RuntimeError("boom")
            if cmd.get_iteration_count() >= ticks:
                cmd.set_complete()

        def fin(cmd: UodCommand):
            log.append((name, id(cmd), "final"))
        return dict(name=name, init_fn=init, exec_fn=exe, finalize_fn=fin)

    def create_uod():
        b = (UodBuilder().with_instrument("DemoUod").with_author("Demo", "demo@example.org").with_filename(__file__)
             .with_hardware_none().with_location("loc"))
        for spec in (mk("Short", 1), mk("Long", 50), mk("Bad", 50, fail_at=1), mk("LongB", 50)):
            b = b.with_command(**spec)
        b = b.with_command_overlap(["Long", "LongB"])
        uod = b.build()
        uod.hwl.connect()
        return uod
    try:
        for method, stop_after in (("Short\nWait: 0.3s\n", None), ("Long\nWait: 0.3s\nLongB\nWait: 0.3s\n", 12), ("Long\nWait: 0.2s\nLong\nWait: 0.3s\n", 12),
                                   ("Bad\nWait: 0.5s\n", None)):
            log.clear()
            with EngineTestRunner(create_uod, method, fail_on_log_error=False).run() as instance:
                e = instance.engine
                instance.start()
                for i in range(14):
                    try:
                        instance.run_ticks(1)
                    except Exception:
                        pass
                    if stop_after is not None and i == stop_after - 4:
                        try:
                            e.execute_control_command_from_user("Stop")
                        except Exception:
                            pass
            per = {}
            for name, cid, what in log:
                per.setdefault((name, cid), []).append(what)
            for (name, cid), evs in per.items():
                bad = None
                if evs.count("init") > 1:
                    bad = "initialized more than once"
                elif "exec" in evs and ("init" not in evs or evs.index("init") > evs.index("exec")):
                    bad = "executed before being initialized"
                elif evs.count("final") > 1:
                    bad = "finalized more than once"
                elif "init" in evs and evs.count("final") != 1:
                    bad = "initialized but not finalized exactly once by the end of the scenario"
                elif "final" in evs and "exec" in evs[evs.index("final"):]:
                    bad = "executed after being finalized"
                if bad:
                    return {"violated": True, "method": method, "command": name, "what": bad, "callback_sequence": evs}
        return {"violated": False, "scenarios": 4}
    finally:
        logging.disable(logging.NOTSET)


if __name__ == "__main__":
    print(lifecycle_pairing())
