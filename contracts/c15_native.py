"""Native scenario for C15: a UOD command whose execute callback raises on its second iteration; the run log must stay producible."""
import logging


def failing_uod_command_keeps_the_run_log_producible():
    from openpectus.lang.exec.uod import UodBuilder, UodCommand
    from openpectus.test.engine.utility_methods import EngineTestRunner
    logging.disable(logging.CRITICAL)

    def boom(cmd: UodCommand, **kw):
        if cmd.get_iteration_count() >= 1:
            raise RuntimeError("boom")

    def create_uod():
        uod = (UodBuilder().with_instrument("DemoUod").with_author("Demo", "demo@example.org").with_filename(__file__)
               .with_hardware_none().with_location("loc").with_command(name="Boom", exec_fn=boom).build())
        uod.hwl.connect()
        return uod
    try:
        runner = EngineTestRunner(create_uod, "Mark: A\nBoom\nMark: B\n", fail_on_log_error=False)
        with runner.run() as instance:
            e = instance.engine
            instance.start()
            for i in range(8):
                try:
                    instance.run_ticks(1)
                except Exception:
                    pass                    # the failing command pauses the engine with an error; keep ticking
                try:
                    e.tracking.get_runlog()
                except Exception as ex:
                    rec = [r for r in e.tracking.runtimeinfo.records if r.name == "Boom"]
                    states = [str(s.state_name) for r in rec for s in r.states]
                    return {"violated": True, "scenario": "UOD command `Boom` raises in its second execute iteration",
                            "what": f"get_runlog raised {type(ex).__name__}: {ex}", "tick": i, "states_of_the_command": states}
            return {"violated": False}
    finally:
        logging.disable(logging.NOTSET)


if __name__ == "__main__":
    print(failing_uod_command_keeps_the_run_log_producible())
