"""Native scenario for C15: a UOD command whose execute callback raises on its second iteration; the run log must stay producible."""
import logging


def failing_uod_command_keeps_the_run_log_producible():
    from openpectus.lang.exec.uod import UodBuilder, UodCommand
    from openpectus.test.engine.utility_methods import EngineTestRunner
    logging.disable(logging.CRITICAL)

    def boom(cmd: UodCommand, **kw):
        if cmd.get_iteration_count() >= 1:
            raise RuntimeError("boom")

    def create_uod():
        uod = (UodBuilder().with_instrument("DemoUod").with_author("Demo", "demo@example.org").with_filename(__file__)
               .with_hardware_none().with_location("loc").with_command(name="Boom", exec_fn=boom).build())
        uod.hwl.connect()
        return uod
    try:
        runner = EngineTestRunner(create_uod, "Mark: A\nBoom\nMark: B\n", fail_on_log_error=False)
        with runner.run() as instance:
            e = instance.engine
            instance.start()
            for i in range(8):
                try:
                    instance.run_ticks(1)
                except Exception:
                    pass                    # the failing command pauses the engine with an error; keep ticking
                try:
                    e.tracking.get_runlog()
                except Exception as ex:
                    rec = [r for r in e.tracking.runtimeinfo.records if r.name == "Boom"]
                    states = [str(s.state_name) for r in rec for s in r.states]
                    return {"violated": True, "scenario": "UOD command `Boom` raises in its second execute iteration",
                            "what": f"get_runlog raised {type(ex).__name__}: {ex}", "tick": i, "states_of_the_command": states}
            return {"violated": False}
    finally:
        logging.disable(logging.NOTSET)


if __name__ == "__main__":
    print(failing_uod_command_keeps_the_run_log_producible())


# ---- four further executions under which the run log must stay producible (first reported by a seed agent on the unchanged tree) --------------
def _uod(final_raises=False, ticks=5):
    from openpectus.engine.hardware import RegisterDirection
    from openpectus.lang.exec.tags_impl import ReadingTag
    from openpectus.lang.exec.uod import UodBuilder, UodCommand
    from openpectus.test.engine.test_helpers import TestHW

    def create():
        def reset(cmd: UodCommand, **kv):
            if cmd.get_iteration_count() >= ticks:
                cmd.set_complete()

        def fin(cmd):
            if final_raises:
                raise RuntimeError("finalize boom")
        b = (UodBuilder().with_instrument("T").with_author("a", "a@b.c").with_filename(__file__)
             .with_hardware(TestHW(connected=True)).with_location("x")
             .with_hardware_register("FT01", RegisterDirection.Both, path="x").with_tag(ReadingTag("FT01", "L/h"))
             .with_command(name="Reset", exec_fn=reset, finalize_fn=fin).with_command(name="Other", exec_fn=reset))
        u = b.build()
        u.hwl.connect()
        return u
    return create


def _runlog_problem(inst):
    try:
        inst.engine.tracking.get_runlog()
        return None
    except Exception as ex:
        return f"get_runlog raised {type(ex).__name__}: {ex}"


def _states(inst, prefix):
    return [[(s.instance_id[:4], str(s.state_name)) for s in r.states] for r in inst.runtimeinfo.records if (r.name or "").startswith(prefix)]


def _scenario(name, create, method, drive):
    from openpectus.test.engine.utility_methods import EngineTestRunner
    logging.disable(logging.CRITICAL)
    try:
        runner = EngineTestRunner(create, method, fail_on_log_error=False)
        with runner.run() as inst:
            inst.start_run()
            extra = drive(inst)
            bad = _runlog_problem(inst)
            return {"violated": bad is not None, "scenario": name, "method": method, "what": bad, **(extra or {})}
    finally:
        logging.disable(logging.NOTSET)


def force_of_a_completed_wait():
    def drive(inst):
        inst.run_ticks(8, fail_on_log_error=False)
        rec = [r for r in inst.runtimeinfo.records if r.name == "Wait: 0.3s"][0]
        try:
            inst.engine.force_instruction(rec.states[-1].instance_id)
            return {"request": "accepted", "states": _states(inst, "Wait")}
        except Exception as ex:
            return {"request": f"rejected: {ex}"[:90]}
    return _scenario("force_instruction for a Wait that has already completed", _uod(ticks=2), "Wait: 0.3s\nMark: A\n", drive)


def cancel_of_a_command_awaiting_its_threshold():
    def drive(inst):
        inst.run_ticks(3, fail_on_log_error=False)
        rec = [r for r in inst.runtimeinfo.records if (r.name or "").endswith("Reset")]
        out = {}
        if rec and rec[0].states:
            try:
                inst.engine.cancel_instruction(rec[0].states[-1].instance_id)
                out["request"] = "accepted"
            except Exception as ex:
                out["request"] = f"rejected: {ex}"[:90]
        inst.run_ticks(20, fail_on_log_error=False)
        out["states"] = _states(inst, "1.0 Reset") or _states(inst, "Reset")
        return out
    return _scenario("cancel_instruction for a UOD command still awaiting its threshold", _uod(ticks=2), "1.0 Reset\nMark: A\n", drive)


def finalizer_that_raises_after_completion():
    def drive(inst):
        try:
            inst.run_ticks(8, fail_on_log_error=False)
        except Exception:
            pass
        return {"states": _states(inst, "Reset")}
    return _scenario("UOD command whose finalize callback raises after the command completed", _uod(final_raises=True, ticks=2), "Reset\nMark: A\n", drive)


def alarm_refiring_over_a_long_running_command():
    def drive(inst):
        inst.run_ticks(14, fail_on_log_error=False)
        return {"states": _states(inst, "Reset")}
    return _scenario("long running UOD command in the body of an Alarm that fires again", _uod(ticks=50), "Alarm: Run Time > 0s\n    Reset\n    Mark: A\n", drive)
