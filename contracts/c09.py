"""C09 — Unpause restores exactly the outputs from before that pause.
Same command contracts as C06 (contracts/c06.py, contracts/runstate.py); the obligations that carry C09 are
  * K (pause-snapshot-belongs-to-the-current-pause) at every yield and exit of Start/Pause/Unpause/Stop/Restart and Pause.cancel
  * the call-site obligation of Engine._apply_state inside Unpause: the state applied is the snapshot taken by the most recent Pause
    of the current run (ghost sequence numbers of pauses and runs)
  * after Unpause the snapshot is consumed (`_prev_state is None`)."""
from pyvc.spec import Contract
import contracts.c06 as c06
from contracts.runstate import EN

PROP = "C09"
KEEP = ("StartEngineCommand", "PauseEngineCommand", "UnpauseEngineCommand", "StopEngineCommand", "RestartEngineCommand")
CONTRACTS = [c for c in c06.CONTRACTS if any(k in c.target for k in KEEP)]
for c in CONTRACTS:
    if c.target.endswith("UnpauseEngineCommand._run") and not any("snapshot-consumed" in str(e) for e in c.ensures):
        c.ensures = c.ensures + [("snapshot-consumed", f"{EN}._prev_state is None")]
    if c.target.endswith("PauseEngineCommand._run") and not any("pause-captures" in str(e) for e in c.ensures):
        pass
TARGETS = [c.key for c in CONTRACTS]
TRUSTED = c06.TRUSTED + ["Engine._apply_safe_state returns the output values in effect at the call (ghost-stamped with the pause and run sequence "
                         "numbers); Engine._apply_state applies exactly the given collection (both engine methods contain loops over hardware "
                         "registers / tags and are not themselves under contract)"]
CLAUSES = {"restores exactly the values from immediately before the most recent Pause of the same run": "call-site obligation on _apply_state in Unpause + invariant K",
           "never values of an earlier run or of an earlier, already-undone pause": "K preserved by Stop / Restart / Start / Pause / Unpause (all segments)"}
EXPLANATION = "Ghost pause/run sequence numbers on the snapshot object; invariant K over all run-state commands; one repo defect (snapshot survived Stop/Restart) fixed."


def replay(obligation, witness):
    import contracts.c09_native as n
    r = n.scenario_stale_snapshot_across_runs()
    return {"confirmed": r["violated"], **r}


def _nat():
    import contracts.c09_native as n
    r = n.scenario_stale_snapshot_across_runs()
    return {"ok": not r["violated"], "observation": r}


NATIVE = [("native:stale-snapshot-across-runs", _nat)]
REPLAY_WITHOUT_WITNESS = True
