"""C09 — Unpause restores exactly the outputs from before that pause.
Same command contracts as C06 (contracts/c06.py, contracts/runstate.py); the obligations that carry C09 are
  * K (pause-snapshot-belongs-to-the-current-pause) at every yield and exit of Start/Pause/Unpause/Stop/Restart and Pause.cancel
  * the call-site obligation of Engine._apply_state inside Unpause: the state applied is the snapshot taken by the most recent Pause
    of the current run (ghost sequence numbers of pauses and runs)
  * after Unpause the snapshot is consumed (`_prev_state is None`)."""
from pyvc.spec import Contract
import contracts.c06 as c06
from contracts.runstate import EN

PROP = "C09"
KEEP = ("StartEngineCommand", "PauseEngineCommand", "UnpauseEngineCommand", "StopEngineCommand", "RestartEngineCommand")
CONTRACTS = [c for c in c06.CONTRACTS if any(k in c.target for k in KEEP)]
for c in CONTRACTS:
    if c.target.endswith("UnpauseEngineCommand._run") and not any("snapshot-consumed" in str(e) for e in c.ensures):
        c.ensures = c.ensures + [("snapshot-consumed", f"{EN}._prev_state is None")]
    if c.target.endswith("PauseEngineCommand._run") and not any("pause-captures" in str(e) for e in c.ensures):
        pass


# ---- the snapshot itself: Engine._apply_safe_state records EVERY output it is about to change, whatever its current value ---------------
import z3                                          # noqa: E402
from pyvc.spec import Contract, LoopSpec          # noqa: E402
from pyvc.smt import Val, RID, IV, mk_int          # noqa: E402
from pyvc.state import SV                          # noqa: E402
from pyvc.repo import Ty                           # noqa: E402
TAG_OF = z3.Function("TAG_OF_REGISTER", Val, Val)       # self.uod.tags[r.name]
RO = z3.Function("READONLY_VALUE_OF", Val, Val)         # tag.as_readonly(): the tag's value in effect now


def tag_of(ctx, node):
    """self.uod.tags[r.name]: the tag of that register (lookup by name, assumed)"""
    r = ctx.local("r")
    out = SV(TAG_OF(r.term), Ty("Tag"))
    ctx.ex.assume_type(out.term, out.ty, ctx.fr)
    return out


def as_readonly(ctx, args, kwargs):
    """tag.as_readonly(): snapshot of the tag's current value"""
    t = ctx.ex.ev(ctx.node.func.value, ctx.fr)
    return SV(RO(t.term), None)


def set_safe(ctx, args, kwargs):
    """tag.set_value(safe_value, time): counted in the ghost field `ghost_safe_sets`"""
    me = ctx.local("self")
    n = IV(ctx.st.read("ghost_safe_sets", RID(me.term)))
    ctx.st.write("ghost_safe_sets", RID(me.term), Val.VInt(n + 1))
    return ctx.none()


def collection(ctx, args, kwargs):
    """TagValueCollection(current_values): the snapshot handed to Pause. Obligation: it holds one entry per register that has a safe
    value, position by position the value that register's tag had when it was visited, and every one of those tags was set"""
    st = ctx.st
    cur, regs = args[0], ctx.local("registers")
    n = ctx.list_len(regs)
    k = z3.Int(st.fresh_name("k"))
    from pyvc import heapops as H
    ok = z3.And(ctx.list_len(cur) == n,
                z3.ForAll([k], z3.Implies(z3.And(0 <= k, k < n),
                                          H.list_get(st, RID(cur.term), k) == RO(TAG_OF(H.list_get(st, RID(regs.term), k))))))
    ctx.check("the-snapshot-holds-the-current-value-of-every-output-with-a-safe-value", ok, "call-site")
    ctx.check("every-output-with-a-safe-value-is-set-to-it", IV(st.read("ghost_safe_sets", RID(ctx.local("self").term))) == n, "call-site")
    return ctx.fresh("snapshot", "TagValueCollection")


as_readonly.modifies = []
set_safe.modifies = ["ghost_safe_sets"]
collection.modifies = []
safe_state = Contract(
    target="openpectus.engine.engine:Engine._apply_safe_state", raises=None,
    types={"self": "Engine", "Engine.ghost_safe_sets": "int", "registers": "list[Register]", "current_values": "list", "r": "Register",
           "Register.direction": "RegisterDirection", "Register._options": "dict[str, Any]"},
    requires=["self.ghost_safe_sets == 0"],
    calls={"tag.as_readonly": as_readonly, "tag.set_value": set_safe, "TagValueCollection": collection,
           "hwl.registers.values": lambda ctx, a, k: ctx.fresh("all_registers", "list[Register]")},
    options={"lenient": True, "protected_prefixes": (), "subscript_handlers": {"self.uod.tags[r.name]": tag_of}},
    loops={"for r in registers": LoopSpec(
        invariant=["len(current_values) == idx", "self.ghost_safe_sets == idx",
                   "all(current_values[j] == RO_OF(registers[j]) for j in range(idx))"],
        frame={"$len": ["current_values"], "$items": ["current_values"], "ghost_safe_sets": ["self"]})})


def RO_OF(ctx, reg):
    return SV(RO(TAG_OF(reg.term)), None)


SPEC_FUNCS = {"RO_OF": RO_OF}
CONTRACTS = CONTRACTS + [safe_state]
TARGETS = [c.key for c in CONTRACTS]
TRUSTED = c06.TRUSTED + ["Engine._apply_safe_state returns the output values in effect at the call (ghost-stamped with the pause and run sequence "
                         "numbers) - that the snapshot is complete is now an obligation on Engine._apply_safe_state itself (loop invariant); "
                         "Engine._apply_state applies exactly the given collection (loop over tags, not under contract)"]
CLAUSES = {"restores exactly the values from immediately before the most recent Pause of the same run": "call-site obligation on _apply_state in Unpause + invariant K",
           "never values of an earlier run or of an earlier, already-undone pause": "K preserved by Stop / Restart / Start / Pause / Unpause (all segments)"}
EXPLANATION = "Ghost pause/run sequence numbers on the snapshot object; invariant K over all run-state commands; one repo defect (snapshot survived Stop/Restart) fixed."


def replay(obligation, witness):
    import contracts.c09_native as n
    if "_apply_safe_state" in obligation:
        r = n.scenario_output_already_safe_before_the_pause()
        return {"confirmed": r["violated"], **r}
    r = n.scenario_stale_snapshot_across_runs()
    return {"confirmed": r["violated"], **r}


def _nat():
    import contracts.c09_native as n
    r = n.scenario_stale_snapshot_across_runs()
    return {"ok": not r["violated"], "observation": r}


def _nat2():
    import contracts.c09_native as n
    r = n.scenario_output_already_safe_before_the_pause()
    return {"ok": not r["violated"], "observation": r}


NATIVE = [("native:stale-snapshot-across-runs", _nat), ("native:output-already-safe-before-the-pause-is-restored", _nat2)]
REPLAY_WITHOUT_WITNESS = True
