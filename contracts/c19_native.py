"""Native oracle for C19: the real SemanticCheckAnalyzer on small method texts against a small tag / command set, names with and
without close spelling matches. Reports the first text whose analysis raises, or whose undefined reference / incomplete condition
is not reported as an error on the offending line."""


def _analyze(text, empty_collections=False):
    from openpectus.lang.exec.analyzer import SemanticCheckAnalyzer
    from openpectus.lang.exec.tags import TagValueCollection, TagValue
    from openpectus.lang.exec.commands import CommandCollection, Command
    from openpectus.lang.model.parser import create_method_parser, ParserMethod
    tags = TagValueCollection([TagValue("Foo", 0, 1, None, None, None), TagValue("Bar", 0, 1, None, "L", None)])
    cmds = CommandCollection().with_cmd(Command("Mark")).with_cmd(Command("Watch")).with_cmd(Command("Alarm")) \
        .with_cmd(Command("Simulate")).with_cmd(Command("Simulate off"))
    if empty_collections:
        tags, cmds = TagValueCollection([]), CommandCollection()
    m = ParserMethod.from_pcode(text)
    prog = create_method_parser(m).parse_method(m)
    a = SemanticCheckAnalyzer(tags, cmds)
    a.analyze(prog)
    return [(i.id, i.node.position.line if i.node is not None else None) for i in a.errors]


CASES = [  # (text, line that must carry an error)
    ("Watch: Qzxwv > 3\n    Mark: a", 0), ("Alarm: Qzxwv > 3\n    Mark: a", 0), ("Simulate: Qzxwv = 3", 0), ("Simulate off: Qzxwv", 0),
    ("Watch: Fo > 1\n    Mark: a", 0), ("Watch: Qz > 1\n    Mark: a", 0), ("Simulate: Fo = 1", 0), ("Simulate off: Fo", 0),
    ("Simulate off: Qz", 0), ("Mark: a\nWatch: Fooo > 1\n    Mark: b", 1), ("Watch:\n    Mark: a", 0), ("Watch: Foo\n    Mark: a", 0),
    ("Watch: Foo >\n    Mark: a", 0), ("Simulate:", 0), ("Simulate: Foo", 0), ("Qzxwvq: 3", 0), ("Mrk: a", 0), ("Mark: a\nZz", 1)]


def check_all():
    import logging
    logging.disable(logging.CRITICAL)
    try:
        for empty in (False, True):
            for text, line in CASES:
                try:
                    errs = _analyze(text, empty)
                except Exception as e:
                    return {"violated": True, "method_text": text, "empty_tag_and_command_sets": empty, "what": f"analysis raised {type(e).__name__}: {e}"}
                if not any(ln == line for _id, ln in errs):
                    return {"violated": True, "method_text": text, "empty_tag_and_command_sets": empty, "what": f"no error reported on line {line}", "errors": errs}
        return {"violated": False, "cases": 2 * len(CASES)}
    finally:
        logging.disable(logging.NOTSET)


if __name__ == "__main__":
    print(check_all())
