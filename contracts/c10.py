"""C10 — Stop and Restart leave no command running (partial: no UOD command instance outlives its request).

Stop / Restart call CommandManager.cancel_commands(source, finalize=True), which walks the executing REQUESTS and cancels + finalizes
the command instance of each. An instance allocated in uod.command_instances is therefore released by Stop only if a live request
still points at it. Contracts on the real functions:
  (a) CommandManager._execute_uod_command, every exit (normal and exceptional): if the request has been marked done
      (cmd_executing_done), the uod holds no instance under the request's name any more;
  (b) CommandManager._finalize_command: the request is marked done and the instance is disposed;
  (c) CommandManager._cancel_command(request, finalize=True): afterwards the instance is released, or — when the tracking call raised
      (it does for user-started UOD commands) and the blanket handler swallowed it — the command is at least cancelled and its request
      still executing, so that (a) finalizes it on the execute loop's next visit;
  (d) CommandManager.cancel_commands(source, finalize=True): for every executing request other than the source, no instance under its
      name remains (loop invariant over any number of requests)."""
import z3
from pyvc.spec import Contract, LoopSpec
from pyvc.smt import Val, RID, SVs, BV, NONE, mk_bool
from pyvc.state import SV
from pyvc.repo import Ty
from pyvc import heapops as H

PROP = "C10"
CM = "openpectus.engine.command_manager:CommandManager."
LEVEL = "other"


def build(ctx, args, kwargs):
    """UodCommandBuilder.build(uod, instance_id): a new command named like the factory key it was looked up under, bound to that uod"""
    name = ctx.local("name")
    return ctx.new_object("UodCommand", name=name, context=args[0])


def parse_args(ctx, args, kwargs):
    """UodCommand.parse_args(text): a dict, or None for invalid arguments"""
    out = ctx.fresh("parsed", "dict[str, any] | None")
    ctx.ex.assume_type(out.term, out.ty, ctx.fr)
    return out


def user_fn(ctx, args, kwargs):
    """uod command initialize / execute (user code): may raise"""
    if ctx.choose(2, "uod callback outcome") == 1:
        ctx.raise_("Exception", "uod callback raised")
    return ctx.none()


def quiet(ctx, args, kwargs):
    """tracking bookkeeping / flag setters: assumed not to raise and not to touch uod.command_instances"""
    return ctx.fresh("opaque", None)


def flag(ctx, args, kwargs):
    """command state flag (is_cancelled / is_finalized / ...): some bool"""
    return ctx.fresh("flag", "bool")


def finalize_fn(ctx, args, kwargs):
    """the command's user finalizer (user code): may raise"""
    if ctx.choose(2, "user finalizer outcome") == 1:
        ctx.raise_("Exception", "finalize callback raised")
    return ctx.none()


for _h in (build, parse_args, user_fn, quiet, flag, finalize_fn):
    _h.modifies = []

TYPES = {"self": "CommandManager", "cmd_request": "CommandRequest", "CommandManager.uod": "UnitOperationDefinitionBase",
         "UnitOperationDefinitionBase.command_instances": "dict[str, UodCommand]", "CommandManager.cmd_executing": "list[CommandRequest]",
         "CommandManager.cmd_executing_done": "set[CommandRequest]", "CommandRequest.name": "str", "UodCommand.name": "str",
         "UodCommand.context": "UnitOperationDefinitionBase", "ContextEngineCommand.context": "UnitOperationDefinitionBase",
         "CommandManager.in_executing_loop": "bool", "cmd": "UodCommand", "uod_command": "UodCommand", "c": "CommandRequest",
         "UnitOperationDefinitionBase.overlapping_command_names_lists": "list[list[str]]"}
CALLS = {"factory.build": build, "uod_command.parse_args": parse_args, "uod_command.initialize": user_fn, "uod_command.execute": user_fn,
         "self.tracking.*": quiet, "self.finalize_fn": finalize_fn, "cmd.cancel": quiet, "self.registry.get_running_command": None,
         "uod_command.is_cancelled": flag, "uod_command.is_finalized": flag, "uod_command.is_initialized": flag,
         "uod_command.is_execution_started": flag, "uod_command.is_execution_complete": flag, "cmd.is_execution_complete": flag,
         "cmd.is_finalized": flag, "uod_command.get_iteration_count": quiet, "self.uod.has_command_name": flag}
CALLS.pop("self.registry.get_running_command")


def no_internal(ctx, args, kwargs):
    """registry.get_running_command(name): None for a UOD command name (internal engine commands live in the registry, UOD commands do not)"""
    return SV(NONE, Ty("none"))


no_internal.modifies = []
CALLS["self.registry.get_running_command"] = no_internal
def currently_executing(ctx, base):
    """CommandManager.currently_executing (generator property): the requests of cmd_executing not in cmd_executing_done, in order"""
    import ast
    from pyvc.executor import Frame
    nf = Frame(ctx.fr.func, ctx.fr.module, None, parent_env=ctx.fr)
    nf.locals["cm!"] = base
    e = ast.parse("[r for r in cm_.cmd_executing if r not in cm_.cmd_executing_done]", mode="eval").body
    nf.locals["cm_"] = base
    return ctx.ex.ev(e, nf)


INST = "self.uod.command_instances"
REP = f"all({INST}[k].name == k and {INST}[k].context is self.uod for k in {INST})"
OPTS = {"property_handlers": {"CommandManager.currently_executing": currently_executing}, "lenient": True, "protected_prefixes": (), "opaque_subscript": True, "default_unroll": 2}
DONE_IMPLIES_RELEASED = f"implies(cmd_request in self.cmd_executing_done, not has_key({INST}, cmd_request.name))"

DONE = "self.cmd_executing_done"
DICTF = ["$dhas", "$dval", "$dcnt", "$dord", "$dpos"]
ONLY_THIS = f"all(r in old({DONE}) or r is cmd_request for r in {DONE})"
KEPT_DONE = f"all(r in {DONE} for r in old({DONE}))"


def mods(extra_obj):
    m = {f: [DONE, INST] for f in DICTF}
    m["*"] = [extra_obj]
    return m


finalize = Contract(
    target=CM + "_finalize_command", types=TYPES, calls=CALLS, options=OPTS, raises={"Exception": None},
    exc_ensures={"Exception": [("the-instance-is-disposed-even-when-the-finalizer-raises", f"not has_key({INST}, cmd_request.name)"),
                               ("the-request-is-marked-done-even-when-the-finalizer-raises", f"implies(cmd_request in self.cmd_executing, cmd_request in {DONE})"),
                               ("instances-stay-keyed-by-their-name", REP), ("only-this-request-is-marked-done", ONLY_THIS),
                               ("done-marks-are-kept", KEPT_DONE), ("request-untouched", "cmd_request.name == old(cmd_request.name)")]},
    requires=[REP, f"has_key({INST}, cmd.name) and {INST}[cmd.name] is cmd", "cmd.name == cmd_request.name", "cmd_request.name.strip() != ''"],
    ensures=[("the-instance-is-disposed", f"not has_key({INST}, cmd_request.name)"),
             ("the-request-is-marked-done-if-it-was-executing", f"implies(cmd_request in self.cmd_executing, cmd_request in {DONE})"),
             ("instances-stay-keyed-by-their-name", REP), ("only-this-request-is-marked-done", ONLY_THIS), ("done-marks-are-kept", KEPT_DONE)],
    modifies=mods("cmd"))

ISUOD = z3.Function("IS_UOD_COMMAND_NAME", z3.StringSort(), z3.BoolSort())


def has_command_name(ctx, args, kwargs):
    """uod.has_command_name(name): whether the uod defines a command of that name (a fixed predicate of the name)"""
    return SV(mk_bool(ISUOD(SVs(args[0].term))), Ty("bool"))


def is_uod(ctx, name):
    return SV(mk_bool(ISUOD(SVs(name.term))), Ty("bool"))


has_command_name.modifies = []
SPEC_FUNCS = {"is_uod": is_uod}


def mark_may_raise(ctx, args, kwargs):
    """Tracking.mark_cancelled(request): bookkeeping; raises ValueError when the request's node is not cancellable (always the case for a
    UOD command started from the user side, whose node is a NullNode)"""
    if ctx.choose(2, "tracking.mark_cancelled outcome") == 1:
        ctx.raise_("ValueError", "node not cancellable")
    return ctx.none()


def cancel_flag(ctx, args, kwargs):
    """cmd.cancel(): sets the command's cancelled flag (ghost)"""
    ctx.ghost["cancelled"] = True
    return ctx.none()


mark_may_raise.modifies = []
cancel_flag.modifies = []


def cancel_exit(ctx, kind, result):
    """cancel+finalize either releases the instance, or — when the tracking call raised and the blanket handler swallowed it — leaves the
    command CANCELLED with its request still executing, so that the execute loop finalizes it on its next visit ((a): cancelled and not
    finalized => finalize). What must not happen: an instance that is neither released nor cancelled."""
    if kind != "return":
        return
    released = ctx.spec_bool(f"not has_key({INST}, cmd_request.name)")
    still_executing = ctx.spec_bool(f"cmd_request not in {DONE} or old(cmd_request in {DONE})")
    fin = ctx.truthy(ctx.local("finalize"))
    had = ctx.spec_bool(f"old(has_key({INST}, cmd_request.name))")
    running = ctx.ghost.get("not_complete", z3.BoolVal(True))
    ok = z3.Or(released, z3.And(z3.BoolVal(bool(ctx.ghost.get("cancelled"))), still_executing))
    ctx.check_w("finalize=>instance-released-or-command-cancelled-with-its-request-still-executing", z3.Implies(z3.And(fin, had, running), ok),
                lambda m: {"cancel_flag_set": bool(ctx.ghost.get("cancelled"))}, "postcondition")


def not_complete(ctx, args, kwargs):
    """cmd.is_execution_complete(): some bool (ghost: remembered for the postcondition)"""
    b = ctx.fresh("complete", "bool")
    ctx.ghost["not_complete"] = z3.Not(ctx.truthy(b))
    return b


not_complete.modifies = []
CALLS_CANCEL = dict(CALLS, **{"self.uod.has_command_name": has_command_name, "self.tracking.mark_cancelled": mark_may_raise, "cmd.cancel": cancel_flag, "cmd.is_execution_complete": not_complete})
cancel = Contract(
    target=CM + "_cancel_command", types=dict(TYPES, finalize="bool", mark_cancelled="bool"), calls=CALLS_CANCEL, options=OPTS, raises={}, on_exit=cancel_exit,
    requires=[REP, "cmd_request.name.strip() != ''"],
    ensures=[("instances-stay-keyed-by-their-name", REP), ("only-this-request-is-marked-done", ONLY_THIS), ("done-marks-are-kept", KEPT_DONE),
             ("clean-up-without-a-tracking-mark-releases-the-instance", f"implies(finalize and not mark_cancelled, not has_key({INST}, cmd_request.name))"),
             ("a-request-that-has-not-started-yet-is-retired-so-that-it-cannot-start-after-the-cancellation",
              f"implies(finalize and is_uod(cmd_request.name) and old(not has_key({INST}, cmd_request.name)) and cmd_request in self.cmd_executing, cmd_request in {DONE})"),
             ("a-request-retired-by-this-call-leaves-no-instance-behind",
              f"implies(cmd_request in {DONE} and not old(cmd_request in {DONE}), not has_key({INST}, cmd_request.name))")],
    modifies=mods(f"{INST}[cmd_request.name] if has_key({INST}, cmd_request.name) else None"))

LOOP_INV = [REP, f"cmd_request not in {DONE}", "cmd_request.name.strip() != ''", "all(r.name.strip() != '' for r in self.cmd_executing)"]
execute = Contract(
    target=CM + "_execute_uod_command", types=TYPES, calls=CALLS, options=OPTS, raises=None,
    requires=[REP, "cmd_request.name.strip() != ''", f"cmd_request not in {DONE}",
              "all(r.name.strip() != '' for r in self.cmd_executing)"],
    ensures=[("a-request-marked-done-leaves-no-instance-behind", DONE_IMPLIES_RELEASED)],
    exc_ensures={"ValueError": [("a-request-marked-done-leaves-no-instance-behind", DONE_IMPLIES_RELEASED)],
                 "Exception": [("a-request-marked-done-leaves-no-instance-behind", DONE_IMPLIES_RELEASED)]},
    # ASSUMED loop contracts: the two scans that cancel identical / overlapping commands keep the instance table keyed by name and
    # never retire the CURRENT request (they skip it: `c != cmd_request`). Their preservation over the modular _cancel_command contract
    # was left `unknown` by every back end and a bounded unrolling did not finish; stated as an assumption, not counted as proved.
    loops={"for c in self.currently_executing": LoopSpec(invariant=LOOP_INV, assumed=True),
           "for c in self.currently_executing#1": LoopSpec(invariant=LOOP_INV, assumed=True),
           "for overlap_list in self.uod.overlapping_command_names_lists": LoopSpec(invariant=LOOP_INV, assumed=True)})



# ---- cancel_commands (what Stop / Restart call): every executing request except the requesting command itself is cancelled ----------------
def cancel_into_ghost(ctx, args, kwargs):
    """self._cancel_command(request, finalize): recorded in the ghost set `ghost_cancelled` (its effect is the contract proved above)"""
    from pyvc import heapops as H_
    me = ctx.local("self")
    gs = ctx.st.read("ghost_cancelled", ctx.rid(me))
    from pyvc.smt import RID as _RID
    H_.dict_set(ctx.st, _RID(gs), args[0].term, args[0].term)
    fin = args[1] if len(args) > 1 else kwargs.get("finalize")
    if fin is not None:
        ctx.check("the-finalize-flag-is-passed-on", fin.term == ctx.local("finalize").term, "call-site")
    return ctx.none()


cancel_into_ghost.modifies = DICTF
GC = "self.ghost_cancelled"
cancel_all = Contract(
    target=CM + "cancel_commands", types=dict(TYPES, source_command_name="str", finalize="bool", reqs="list[CommandRequest]",
                                              **{"CommandManager.ghost_cancelled": "set[CommandRequest]"}),
    calls=dict(CALLS, **{"self._cancel_command": cancel_into_ghost, "self.registry.get_running_command_names": lambda ctx, a, k: ctx.fresh("running_names", "list[str]")}),
    options=dict(OPTS, lenient=True), raises=None,
    requires=[f"len({GC}) == 0", "all(r is not None for r in self.cmd_executing)"],
    ensures=[("every-executing-request-except-the-requesting-command-is-cancelled",
              f"all(implies(r.name != source_command_name, r in {GC}) for r in old(self.cmd_executing))"),
             ("the-requesting-command-itself-is-not-cancelled", f"all(r.name != source_command_name for r in {GC})")],
    loops={"for cmd_request in reqs": LoopSpec(
        invariant=[f"all(implies(reqs[j].name != source_command_name, reqs[j] in {GC}) for j in range(idx))",
                   f"all(r.name != source_command_name for r in {GC})"],
        frame={f: [GC] for f in DICTF}),
        "for name in self.registry.get_running_command_names()": LoopSpec(invariant=[], frame={"$len": ["cmds_still_running"], "$items": ["cmds_still_running"]}),
        "for name, _ in self.uod.command_instances.items()": LoopSpec(invariant=[], frame={"$len": ["cmds_still_running"], "$items": ["cmds_still_running"]})})
CONTRACTS = [finalize, cancel, execute, cancel_all]
TARGETS = [c.key for c in CONTRACTS]
BOUNDED = []
TRUSTED = ["ASSUMED (not proved): the two scans at the top of _execute_uod_command that cancel identical / overlapping commands keep uod.command_instances keyed by name and do not retire the current request",
           "UodCommandBuilder.build yields a command named like its factory key and bound to the uod", "tracking bookkeeping and command.cancel() do not raise; user finalizers, "
           "uod initialize/execute callbacks may raise anything", "uod.command_instances maps each name to the instance carrying that name (representation invariant, assumed at entry)",
           "Stop / Restart reach cancel_commands(finalize=True) (internal_commands_impl generators, not under this contract)"]
CLAUSES = {"no UOD command is still executing or holding an instance when Stop or Restart completes": "(a)-(c): an instance is released whenever its request is retired, and cancel+finalize releases it; cancel_commands is under contract (every executing request except the requesting command is cancelled with the given finalize flag: loop invariant, all lengths); the Stop/Restart generators only through the gating variants",
           "every started UOD command is shown completed/failed/cancelled; simulations and run id cleared; Restart re-runs under a new run id": "NOT covered"}
EXPLANATION = "Partial claim: instance-release postconditions on the command manager's execute / finalize / cancel paths."


def replay(obligation, witness):
    import contracts.c10_native as n
    if "finalizer-raises" in obligation:
        r = n.raising_finalizer_leaves_no_instance_behind()
        return {"confirmed": bool(r["violated"]), **r}
    if "_cancel_command" in obligation:
        r = n.command_and_stop_in_the_same_tick() if "not-started-yet" in obligation else n.user_started_command_then_stop()
        return {"confirmed": bool(r["violated"]), **r}
    r = n.stop_while_uod_commands_follow_back_to_back() if "EngineCommand._run" in obligation else n.invalid_arguments_then_stop()
    return {"confirmed": bool(r["violated"]), **r}


REPLAY_WITHOUT_WITNESS = True


def _nat():
    import contracts.c10_native as n
    r = n.invalid_arguments_then_stop()
    return {"ok": not r["violated"], "observation": r}


def _nat2():
    import contracts.c10_native as n
    r = n.stop_while_uod_commands_follow_back_to_back()
    return {"ok": not r["violated"], "observation": r}


def _nat3():
    import contracts.c10_native as n
    r = n.user_started_command_then_stop()
    return {"ok": not r["violated"], "observation": r}


def _nat4():
    import contracts.c10_native as n
    r = n.command_and_stop_in_the_same_tick()
    return {"ok": not r["violated"], "observation": r}


def _nat5():
    import contracts.c10_native as n
    r = n.raising_finalizer_leaves_no_instance_behind()
    return {"ok": not r["violated"], "observation": r}


NATIVE = [("native:raising-finalizer-leaves-no-instance", _nat5), ("native:command-and-stop-requested-in-the-same-tick-leaves-no-instance", _nat4), ("native:user-started-command-then-stop-leaves-no-instance", _nat3), ("native:invalid-arguments-then-stop-leaves-no-instance", _nat), ("native:stop-at-any-tick-of-back-to-back-commands-leaves-no-instance", _nat2)]
BOUNDED = ["five native scenarios on the real engine (raising finalizer, command and Stop in the same tick, user-started command then Stop, rejected arguments then Stop, Stop at every tick of back-to-back commands): bounded, not counted"]


# ---- (e) Stop / Restart gate the interpreter between the cancellation of all commands and their completion -------------------------
# Stop and Restart take two ticks: the first cancels and finalizes every command, the second completes. Engine.tick runs the interpreter
# only while `_runstate_stopping` is False, so the flag must be set at the yield between the two ticks: otherwise the interpreter
# starts the method's next UOD command after the cancellation and that instance survives the Stop.
import contracts.c06 as _c06          # noqa: E402
from contracts.runstate import EN as _EN   # noqa: E402


def _gated_yield(ctx):
    if getattr(ctx.fr, "yield_count", 0) == 0:      # the yield directly after cancel_all_commands (later yields of Restart follow the completion)
        ctx.check_w("interpreter-is-gated-between-cancellation-and-completion", ctx.spec_bool(f"{_EN}._runstate_stopping == True"),
                    lambda m: {"at": "the yield after cancel_all_commands"}, "interference-guarantee")
    _c06.on_yield(ctx)


def _gate(cls):
    base = [c for c in _c06.CONTRACTS if c.target.endswith(cls + "._run")][0]
    return Contract(target=base.target, variant="gate", types=dict(base.types, **{"Engine._runstate_stopping": "bool"}), calls=base.calls,
                    requires=base.requires, ensures=[("gate-released-when-the-command-completes",
                                                      f'implies(old({_EN}.ghost_sys_state) not in ["Stopped", "Restarting"], not {_EN}._runstate_stopping)')],
                    raises=base.raises, loops=base.loops, on_yield=_gated_yield, options=base.options)


CONTRACTS = CONTRACTS + [_gate("StopEngineCommand"), _gate("RestartEngineCommand")]
TARGETS = [c.key for c in CONTRACTS]
