#!/bin/sh
# usage: tools/mutant_test.sh <Cnn> <patch-file> | -R <patch-file> (reverse) | -e 'sed-expr' file
set -e
PROP=$1; shift
S=/var/tmp/opverif-scratch-$$
mkdir -p $S
rsync -a --exclude frontend --exclude .git --exclude '__pycache__' /repo/ $S/
if [ "$1" = "-e" ]; then sed -i "$2" "$S/$3"; diff -u "/repo/$3" "$S/$3" | head -20 || true
elif [ "$1" = "-R" ]; then (cd $S && patch -R -p1 -s < "$2")
else (cd $S && patch -p1 -s < "$1"); fi
VERIF_OUT=$S/_verif_out VERIF_REPO=$S /verif/check $PROP || echo "exit=$?"
rm -rf $S
