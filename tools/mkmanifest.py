#!/usr/bin/env python3
"""Regenerate MANIFEST.json from tools/claims.json (claimed checks) + properties.jsonl (everything else -> not_applicable)."""
import json, os
V = os.path.dirname(os.path.dirname(os.path.abspath(__file__)))
props = [json.loads(l) for l in open(os.path.join(V, "properties.jsonl"))]
claims = json.load(open(os.path.join(V, "tools", "claims.json")))
checks, na = [], []
for p in props:
    c = claims["claimed"].get(p["id"])
    if c:
        checks.append({
            "property_id": p["id"],
            "quick_cmd": f"./check {p['id']} --tier quick",
            "thorough_cmd": f"./check {p['id']} --tier thorough",
            "evidence_file": f"evidence/{p['id']}.json",
            "replay_cmd_template": f"./check {p['id']} --replay {{path}}",
            "engine": "pyvc",
            "level_claimed": {"category": c["level"], "text": c["text"], "design_ref": c.get("design_ref", "DESIGN.md section 5 " + p["id"])},
            "level_note": c["note"],
            "technique": c.get("technique", "contract-based deductive verification: VCs generated from the real function ASTs against sidecar contracts, discharged by z3/cvc5; counter-models replayed on the real code"),
        })
    else:
        na.append({"property_id": p["id"], "reason": claims["not_applicable"].get(p["id"], "check not built yet (framework under construction); see DESIGN.md section 5")})
m = {"version": 1, "setup_cmd": "./setup.sh",
     "hooks": claims["hooks"],
     "engines": [{"name": "pyvc", "path": "pyvc/", "serves_properties": [c["property_id"] for c in checks],
                  "kind_free_text": "self-written deductive verifier: Python AST of the real /repo functions -> symbolic execution against sidecar contracts (contracts/) -> VCs discharged by z3 5.1 / cvc5 / z3 4.8; counter-models replayed natively"}],
     "checks": checks, "notes": "see DESIGN.md; known findings in known_findings.json", "not_applicable": na}
json.dump(m, open(os.path.join(V, "MANIFEST.json"), "w"), indent=1)
print(len(checks), "checks,", len(na), "not applicable")
