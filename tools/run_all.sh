#!/bin/sh
# run every claimed check (optionally in parallel: tools/run_all.sh -p) and print the summary lines + exit codes
cd "$(dirname "$0")/.."
IDS=$(python3 -c "import json; print(' '.join(c['property_id'] for c in json.load(open('MANIFEST.json'))['checks']))")
if [ "$1" = "-p" ]; then
  for p in $IDS; do ( ./check $p > /var/tmp/runall_$p.log 2>&1; echo "$p exit=$? $(grep "^\[$p\]" /var/tmp/runall_$p.log)" ) & done; wait
else
  for p in $IDS; do ./check $p > /var/tmp/runall_$p.log 2>&1; echo "$p exit=$? $(grep "^\[$p\]" /var/tmp/runall_$p.log)"; done
fi
