#!/bin/sh
# usage: tools/confirm_seed.sh <Cnn> <patch> <demo.py> [test path...]   -> confirms demo fails with / passes without, tests pass with, runs my check
P=$1; PATCH=$2; DEMO=$3; shift 3
S=/var/tmp/opverif-seed-$$
mkdir -p $S; rsync -a --exclude frontend --exclude .git --exclude '__pycache__' /repo/ $S/
cp $DEMO $S/demo.py
echo "== demo on unchanged tree (expect exit 0)"; (cd $S && PYTHONPATH=$S timeout 300 /venv/bin/python demo.py >/dev/null 2>&1; echo "exit=$?")
(cd $S && patch -p1 -s < $PATCH) || { echo "PATCH FAILED"; rm -rf $S; exit 1; }
echo "== demo with change (expect exit 1)"; (cd $S && PYTHONPATH=$S timeout 300 /venv/bin/python demo.py > demo.out 2>&1; echo "exit=$?"; tail -2 demo.out)
if [ $# -gt 0 ]; then echo "== tests with change"; (cd $S && PYTHONPATH=$S timeout 900 /venv/bin/python -m pytest -q -p no:cacheprovider "$@" 2>&1 | grep -E "passed|failed" | tail -1); fi
echo "== my check with change"; VERIF_OUT=$S/_verif_out VERIF_REPO=$S /verif/check $P 2>&1 | grep -v WARNING | grep -E "VIOLATION|UNDECIDED|KNOWN|\[$P\]" | cut -c1-230 | grep -v KNOWN-FINDING | head -8
rm -rf $S
