#!/bin/sh
# usage: tools/store_seed.sh <Cnn> <n> <outdir> '<change>' '<needs>' '<check_result>'
P=$1; N=$2; O=$3
D=/verif/seeded/$P-subagent-$N
mkdir -p $D
cp $O/patch.diff $O/demo.py $D/
[ -f $O/notes.txt ] && cp $O/notes.txt $D/
python3 - "$P" "$N" "$4" "$5" "$6" > $D/meta.json <<'PY'
import json, sys
p, n, change, needs, res = sys.argv[1:6]
print(json.dumps({"property": p,
 "origin": "fresh sub-agent given only the property text and a scratch worktree" + ("" if n == "1" else f" (seed number {n} for this property)"),
 "change": change, "needs_to_manifest": needs,
 "confirmed_by": f"tools/confirm_seed.sh {p} seeded/{p}-subagent-{n}/patch.diff seeded/{p}-subagent-{n}/demo.py: demo exit 0 on the unchanged tree, exit 1 with the patch; tests pass with the patch",
 "check_result": res}, indent=1))
PY
echo stored $D
