"""Executor mixin: statements, loops (invariant rule / complete unrolling), exceptions, comprehensions."""
from __future__ import annotations

import ast

import z3

from .repo import Ty, parse_ann
from .smt import IV, RV, BV, SVs, RID, Val, INT, NONE, TRUE, mk_int, mk_real, mk_bool, mk_str, mk_ref, num, simplify_bool
from .state import SV, Unsupported, PyRaise, PathEnd, ReturnEx, BreakEx, ContinueEx
from .executor import Frame
from .spec import LoopSpec
from . import heapops as H

UNROLL_LIMIT = 24


def _ghost_sort(spec: str):
    from .smt import Val as _V
    d, r = spec.replace(" ", "").split("->")
    m = {"int": INT, "val": _V, "bool": z3.BoolSort()}
    return z3.ArraySort(m[d], m[r])


class StmtMixin:
    def exec_block(self, stmts, fr: Frame):
        for s in stmts:
            self.exec_stmt(s, fr)

    def exec_stmt(self, node, fr: Frame):
        m = getattr(self, "st_" + type(node).__name__, None)
        if m is None:
            raise Unsupported(f"statement {type(node).__name__}")
        return m(node, fr)

    def st_Pass(self, node, fr):
        pass

    def st_Global(self, node, fr):
        pass

    st_Nonlocal = st_Global

    def st_Import(self, node, fr):
        pass

    st_ImportFrom = st_Import

    def st_Expr(self, node, fr):
        if isinstance(node.value, ast.Constant):
            return
        self.ev(node.value, fr)

    def st_Return(self, node, fr):
        v = self.ev(node.value, fr) if node.value is not None else SV(NONE, Ty("none"))
        raise ReturnEx(v)

    def st_Break(self, node, fr):
        raise BreakEx()

    def st_Continue(self, node, fr):
        raise ContinueEx()

    def st_FunctionDef(self, node, fr):
        fr.locals[node.name] = SV(None, Ty("callable"), ("closure", node, fr, fr.module))

    st_AsyncFunctionDef = st_FunctionDef      # a nested coroutine function: calling it is followed like a call (see ev_Await)

    def st_Assert(self, node, fr):
        c = self.truthy(self.ev(node.test, fr))
        self.raise_if(z3.Not(c), "AssertionError", "assert " + ast.unparse(node.test)[:50])

    def st_Delete(self, node, fr):
        for t in node.targets:
            if isinstance(t, ast.Subscript):
                base = self.ev(t.value, fr)
                if base.ty and base.ty.name == "dict":
                    k = self.need_term(self.ev(t.slice, fr))
                    r = H.rid(base)
                    self.raise_if(z3.Not(H.dict_has(self.st, r, k)), "KeyError", "del " + ast.unparse(t)[:40])
                    H.dict_del(self.st, r, k)
                    continue
            if isinstance(t, ast.Name):
                fr.locals.pop(t.id, None)
                continue
            raise Unsupported("del " + ast.unparse(t))

    # --------------------------------------------------------------------------------------- assignment
    def st_Assign(self, node, fr):
        v = self.ev(node.value, fr)
        for t in node.targets:
            self.assign(t, v, fr)

    def st_AnnAssign(self, node, fr):
        if node.value is None:
            return
        v = self.ev(node.value, fr)
        t = parse_ann(node.annotation)
        if t is not None and t.name != "any" and v.term is not None and (v.ty is None or (v.ty.name in ("list", "dict", "set") and not v.ty.args)):
            v = SV(v.term, t, v.meta)
        self.assign(node.target, v, fr)

    def st_AugAssign(self, node, fr):
        cur = self.ev(node.target, fr)
        rhs = self.ev(node.value, fr)
        if isinstance(node.op, ast.Add) and cur.ty and cur.ty.name == "list":
            self.call_method_builtin(cur, "extend", [rhs], {}, fr, node)
            return
        self.assign(node.target, self.binop(node.op, cur, rhs, node), fr)

    def assign(self, target, v: SV, fr: Frame):
        if isinstance(target, ast.Name):
            h = fr.hint(target.id)
            if h is not None and v.term is not None and v.ty is None:
                v = SV(v.term, h, v.meta)
            fr.locals[target.id] = v
            return
        if isinstance(target, ast.Attribute):
            base = self.ev(target.value, fr)
            self.write_field(base, target.attr, v, fr)
            return
        if isinstance(target, ast.Subscript):
            base = self.ev(target.value, fr)
            tn = base.ty.name if base.ty else None
            idx = self.ev(target.slice, fr)
            if tn == "dict":
                H.dict_set(self.st, H.rid(base), self.need_term(idx), self.need_term(v))
                return
            if tn == "list":
                r = H.rid(base)
                n = H.list_len(self.st, r)
                i = IV(idx.term)
                k = z3.If(i < 0, n + i, i)
                self.raise_if(z3.Or(k < 0, k >= n), "IndexError", "store index")
                H.list_set(self.st, r, k, self.need_term(v))
                return
            if getattr(self, "lenient", False):
                return      # lenient mode: a store into an opaque container has no effect on authorization
            raise Unsupported(f"subscript store on {base.ty}")
        if isinstance(target, (ast.Tuple, ast.List)):
            elems = self.unpack(v, len(target.elts), fr)
            for t, e in zip(target.elts, elems):
                self.assign(t, e, fr)
            return
        raise Unsupported("assignment target " + type(target).__name__)

    def unpack(self, v: SV, n: int, fr):
        if v.meta and v.meta[0] == "tuple":
            if len(v.meta[1]) != n:
                raise PyRaise("ValueError", None, "unpack arity")
            return v.meta[1]
        if v.ty and v.ty.name in ("list", "tuple"):
            r = H.rid(v)
            self.raise_if(H.list_len(self.st, r) != n, "ValueError", "unpack arity")
            out = []
            for k in range(n):
                ety = v.ty.args[k] if v.ty.name == "tuple" and k < len(v.ty.args) else (v.ty.elt() if v.ty.name == "list" else None)
                t = H.list_get(self.st, r, z3.IntVal(k))
                self.assume_type(t, ety, fr)
                out.append(SV(t, ety))
            return out
        raise Unsupported(f"unpack of {v.ty}")

    # ------------------------------------------------------------------------------------- control flow
    def st_If(self, node, fr):
        c = self.truthy(self.ev(node.test, fr))
        if self.st.decide(c, "if:" + ast.unparse(node.test)[:60]):
            self.exec_block(node.body, fr)
        else:
            self.exec_block(node.orelse, fr)

    def st_Raise(self, node, fr):
        if node.exc is None:
            cur = getattr(fr, "handling", None)
            if cur is None:
                raise Unsupported("bare raise outside handler")
            raise PyRaise(cur.cls, cur.val, cur.note)
        # keep exception TYPE and control flow; message strings are opaque
        exc = node.exc
        if isinstance(exc, ast.Call):
            clsname = ast.unparse(exc.func).split(".")[-1]
            try:
                v = self.ev(exc, fr)
            except Unsupported:
                v = None
            raise PyRaise(clsname, v)
        if isinstance(exc, ast.Name):
            sv = fr.lookup(exc.id)
            if sv is not None and sv.ty is not None:
                raise PyRaise(sv.ty.name, sv)
            raise PyRaise(exc.id, None)
        raise Unsupported("raise " + ast.unparse(exc)[:40])

    def st_Try(self, node, fr):
        def run_finally():
            if node.finalbody:
                self.exec_block(node.finalbody, fr)
        try:
            try:
                self.exec_block(node.body, fr)
            except PyRaise as e:
                handled = False
                for h in node.handlers:
                    if self.handler_matches(h, e, fr):
                        handled = True
                        if h.name:
                            ety = Ty(e.cls)
                            fr.locals[h.name] = e.val if e.val is not None else self.fresh_sv("exc", ety)
                        prev = getattr(fr, "handling", None)
                        fr.handling = e
                        try:
                            self.exec_block(h.body, fr)
                        finally:
                            fr.handling = prev
                        break
                if not handled:
                    raise
            else:
                self.exec_block(node.orelse, fr)
        except (PyRaise, ReturnEx, BreakEx, ContinueEx):
            run_finally()
            raise
        run_finally()

    def handler_matches(self, h, e: PyRaise, fr):
        if h.type is None:
            return True
        types = h.type.elts if isinstance(h.type, ast.Tuple) else [h.type]
        for t in types:
            name = ast.unparse(t).split(".")[-1]
            if self.exc_is_subclass(e.cls, name):
                return True
        return False

    def st_With(self, node, fr):
        for item in node.items:
            text = ast.unparse(item.context_expr)
            h = self.find_call_handler("with " + text, fr)
            if h is not None:
                from .api import Ctx
                h(Ctx(self, fr, "with " + text, node), "enter", {})
                try:
                    self.exec_block(node.body, fr)
                finally:
                    h(Ctx(self, fr, "with " + text, node), "exit", {})
                return
            if text.endswith("_lock") or text.endswith(".lock") or "lock" in text.lower():
                top = getattr(self, "top_contract", None)
                acq = top.options.get("on_lock_acquire") if top is not None else None
                if acq is not None and isinstance(node, ast.AsyncWith):
                    # acquiring an asyncio lock may suspend: other coroutines run BEFORE the lock is held
                    from .api import Ctx
                    try:
                        self.ev(item.context_expr, fr)
                    except Unsupported:
                        pass
                    acq(Ctx(self, fr, "acquire " + text, node))
                depth = self.st.ghost.get("$lock:" + text, 0)
                self.st.ghost["$lock:" + text] = depth + 1
                try:
                    self.exec_block(node.body, fr)
                finally:
                    self.st.ghost["$lock:" + text] = depth
                return
            raise Unsupported(f"with {text} (no handler `with {text}` in contract.calls)")
        return

    st_AsyncWith = st_With

    # -------------------------------------------------------------------------------------------- loops
    def loop_key(self, node, fr):
        if isinstance(node, ast.While):
            text = "while " + ast.unparse(node.test)
        else:
            tgt = ", ".join(ast.unparse(e) for e in node.target.elts) if isinstance(node.target, ast.Tuple) else ast.unparse(node.target)
            text = f"for {tgt} in {ast.unparse(node.iter)}"
        n = fr.loop_seen.get((text, id(node)))
        if n is None:
            k = sum(1 for (t, _i) in fr.loop_seen if t == text)
            fr.loop_seen[(text, id(node))] = k
            n = k
        return text if n == 0 else f"{text}#{n}", text

    def find_loop_spec(self, node, fr) -> LoopSpec | None:
        key, text = self.loop_key(node, fr)
        c = fr.contract
        if c is not None and key in c.loops:
            return c.loops[key]
        top = getattr(self, "top_contract", None)
        if top is not None and c is not top and key in top.loops:
            return top.loops[key]          # loops of inlined callees may be specified by the function under verification
        # a `for` loop whose target variables were renamed: the spec written for `for <old targets> in <same iterable>` still applies;
        # the old target names become aliases of the new ones inside the spec texts
        if not isinstance(node, ast.While):
            tail = " in " + ast.unparse(node.iter)
            for loops in ([c.loops] if c is not None else []) + ([top.loops] if top is not None and c is not top else []):
                cands = [k for k in loops if k.startswith("for ") and k.split("#")[0].endswith(tail)]
                if len(cands) == 1:
                    old_t = [t.strip() for t in cands[0][4:cands[0].index(tail)].split(",")]
                    new_t = [ast.unparse(e) for e in node.target.elts] if isinstance(node.target, ast.Tuple) else [ast.unparse(node.target)]
                    if len(old_t) == len(new_t):
                        if not hasattr(self, "name_alias"):
                            self.name_alias = {}
                        for o, n_ in zip(old_t, new_t):
                            if o != n_:
                                self.name_alias[o] = n_
                        return loops[cands[0]]
        du = top.options.get("default_unroll") if top is not None else None
        if du is not None:
            return LoopSpec(unroll=du)     # bounded stand-ins: any loop without its own spec is unrolled to the stated bound
        return None

    def st_For(self, node, fr):
        spec = self.find_loop_spec(node, fr)
        if spec is None and getattr(self, "lenient", False):
            spec = LoopSpec(frame={})   # lenient mode: abstract loop; locals and NEW objects are havocked, existing objects kept
            spec.options_lenient_default = True
        itsv = self.ev(node.iter, fr)
        if itsv.meta and itsv.meta[0] == "lazyiter":
            d = itsv.meta[1]
        elif itsv.meta and itsv.meta[0] == "genexp":
            d = self.iterable(self.comprehension_list(itsv.meta[1], itsv.meta[2]), fr)
        else:
            d = self.iterable(itsv, fr)
        n = self.iter_len(d)
        if d[0] == "zip" and d[2]:
            lens = [self.iter_len(x) for x in d[1]]
            self.raise_if(z3.Or([l != lens[0] for l in lens[1:]]), "ValueError", "zip strict length mismatch")
        nconc = z3.simplify(n)
        if spec is None or spec.unroll is not None:
            if z3.is_int_value(nconc) and nconc.as_long() <= UNROLL_LIMIT:
                cnt = nconc.as_long()
            elif spec is not None and spec.unroll is not None:
                cnt = None
            else:
                raise Unsupported(f"loop without invariant over a collection of symbolic length: "
                                  f"`for {ast.unparse(node.target)} in {ast.unparse(node.iter)[:50]}`")
            self.unroll_for(node, fr, d, n, cnt, spec)
            return
        self.invariant_loop(node, fr, spec, d, n)

    st_AsyncFor = st_For

    def unroll_for(self, node, fr, d, n, cnt, spec):
        bound = cnt if cnt is not None else spec.unroll
        if cnt is None:
            self.bounded_used = True
            self.assumptions.add(f"BOUNDED: loop `{ast.unparse(node.iter)[:40]}` unrolled to {bound} iterations")
            self.st.assume(n <= bound)
        broke = False
        for k in range(bound):
            if cnt is None:
                if not self.st.decide(n > k, f"unroll{k}"):
                    break
            self.assign(node.target, self.iter_get(d, z3.IntVal(k), fr), fr)
            try:
                self.exec_block(node.body, fr)
            except BreakEx:
                broke = True
                break
            except ContinueEx:
                continue
        if not broke:
            self.exec_block(node.orelse, fr)

    def written_locals(self, stmts):
        names = set()
        for s in stmts:
            for n in ast.walk(s):
                if isinstance(n, ast.Name) and isinstance(n.ctx, (ast.Store, ast.Del)):
                    names.add(n.id)
                elif isinstance(n, ast.arg):
                    pass
        return names

    def invariant_loop(self, node, fr, spec: LoopSpec, d, n):
        from .verify import (eval_spec_list, havoc_written, loop_write_set)
        st = self.st
        is_for = not isinstance(node, ast.While)
        key, _ = self.loop_key(node, fr)
        fname = fr.func.qualname.split(":")[1] if fr.func else "?"
        base = f"{self.prop_id}/{fname}/loop[{key[:50]}]"
        # 1. invariant holds on entry (idx = 0)
        idx0 = SV(mk_int(0), Ty("int"))
        fr.locals["idx"] = idx0
        for gname, gsort in spec.ghost.items():
            st.ghost[gname] = SV(st.fresh("g_" + gname, _ghost_sort(gsort)), Ty("zarray"))
        fr.loop_entry = (dict(st.heap), dict(fr.locals))     # visible to spec functions while the invariant is established
        if getattr(spec, "assumed", False):
            self.assumptions.add(f"ASSUMED loop contract (not proved) for `{key[:60]}` in {fname}: " + "; ".join(str(i) for i in spec.invariant)[:300])
        for k, (lab, f) in enumerate(eval_spec_list(self, spec.invariant, fr)):
            if getattr(spec, "assumed", False):
                break
            st.check(f"{base}/inv-init:{lab}", f, "loop-invariant-init", self.witness_fn(fr))
        # 2. havoc what the body writes
        entry_heap, entry_alloc = st.snapshot()
        entry_locals = dict(fr.locals)
        wl = self.written_locals(node.body) | ({n_.id for n_ in ast.walk(node.target) if isinstance(n_, ast.Name)} if is_for else set())
        for name in wl:
            if name in fr.locals and fr.locals[name].term is not None:
                old = fr.locals[name]
                fr.locals[name] = self.fresh_sv("lv_" + name, fr.hint(name) or old.ty)
            elif name in fr.locals:
                pass
        fields = loop_write_set(self, node.body, fr)
        havoc_written(self, fields, spec.frame, fr, entry_alloc)
        for gname, gsort in spec.ghost.items():
            st.ghost[gname] = SV(st.fresh("g_" + gname, _ghost_sort(gsort)), Ty("zarray"))
        idx = st.fresh("idx", INT)
        st.assume(idx >= 0)
        if is_for:
            st.assume(idx <= n)
        fr.locals["idx"] = SV(mk_int(idx), Ty("int"))
        fr.loop_entry = (entry_heap, entry_locals)
        # A-TYPES: annotated container locals keep their element types across the havoc
        for name, lv in list(fr.locals.items()):
            if lv.term is not None and lv.ty is not None and lv.ty.name in ("list", "dict") and lv.ty.args:
                self.assume_type(lv.term, lv.ty, fr)
        for lab, f in eval_spec_list(self, spec.invariant, fr):
            st.assume(f)
        # 3. one arbitrary iteration, or exit
        if is_for:
            go = st.decide(idx < n, "loop-continues")
        else:
            go = st.decide(self.truthy(self.ev(node.test, fr)), "while:" + ast.unparse(node.test)[:40])
        track = not getattr(spec, "options_lenient_default", False)
        if getattr(spec, "assumed", False):
            track = False
            if go:
                raise PathEnd()         # assumed loop contract: the arbitrary iteration is not explored, only the exit state is used
        if track:
            self.reach.setdefault(f"{base}/body-end", 0)
        if go:
            variant0 = None
            if spec.decreases:
                variant0 = IV(self.spec_eval(spec.decreases, fr).term)
                st.check(f"{base}/variant-nonneg", variant0 >= 0, "decreases")
            if is_for:
                self.assign(node.target, self.iter_get(d, idx, fr), fr)
            fr.pre_stack.append((dict(st.heap), dict(fr.locals)))
            iter_heap, iter_alloc = st.snapshot()
            try:
                try:
                    self.exec_block(node.body, fr)
                except ContinueEx:
                    pass
                fr.locals["idx"] = SV(mk_int(idx + 1), Ty("int"))
                for gname, (kexpr, vexpr) in spec.ghost_update.items():
                    arr = st.ghost[gname].term
                    kv, vv = self.spec_eval(kexpr, fr), self.spec_eval(vexpr, fr)
                    key = IV(kv.term) if arr.sort().domain() == INT else self.need_term(kv)
                    rs = arr.sort().range()
                    val = IV(vv.term) if rs == INT else (self.truthy(vv) if rs == z3.BoolSort() else self.need_term(vv))
                    st.ghost[gname] = SV(z3.Store(arr, key, val), Ty("zarray"))
                if spec.ghost_step is not None:
                    from .api import Ctx
                    spec.ghost_step(Ctx(self, fr, "loop", node))
                for lab, f in eval_spec_list(self, spec.step, fr):
                    st.check(f"{base}/step:{lab}", f, "loop-step", self.witness_fn(fr))
                for lab, f in eval_spec_list(self, spec.invariant, fr):
                    st.check(f"{base}/inv-preserve:{lab}", f, "loop-invariant-preserve", self.witness_fn(fr))
                if variant0 is not None:
                    v1 = IV(self.spec_eval(spec.decreases, fr).term)
                    st.check(f"{base}/variant-decreases", v1 < variant0, "decreases")
                if spec.frame is not None and track:
                    self.check_loop_frame(spec, fr, base, iter_heap, iter_alloc)
                if track:
                    self.reach[f"{base}/body-end"] = self.reach.get(f"{base}/body-end", 0) + (1 if st.reachable() else 0)
                raise PathEnd()
            except BreakEx:
                fr.pre_stack.pop()
                fr.locals.pop("idx", None)
                return
            finally:
                if fr.pre_stack and False:
                    fr.pre_stack.pop()
        fr.locals.pop("idx", None)
        self.exec_block(node.orelse, fr)

    def check_loop_frame(self, spec, fr, base, iter_heap, iter_alloc):
        """the loop frame is a proof obligation, not an assumption: after one arbitrary iteration every field the body changed
        is unchanged on the references that existed when the iteration began, except those the frame names (evaluated at the
        start of the iteration)"""
        st = self.st
        from .smt import Val, RID
        r = z3.Int("r!lframe")
        for f in sorted(st.heap.keys()):
            cur, old = st.heap[f], iter_heap.get(f)
            if old is None or cur is old or z3.eq(cur, old):
                continue
            allowed = spec.frame.get(f, spec.frame.get("*"))
            if allowed is not None and "*" in allowed:
                continue
            refs = []
            for e in (allowed or []):
                sv = self.with_heap(iter_heap, fr.pre_stack[-1][1], lambda e=e: self.spec_eval(e, fr), owner=fr) if isinstance(e, str) else e
                refs.append(sv.term)
            cond = z3.And(r < iter_alloc, *[z3.Or(z3.Not(Val.is_VRef(x)), r != RID(x)) for x in refs])
            st.check(f"{base}/frame:{f}", z3.ForAll([r], z3.Implies(cond, z3.Select(cur, r) == z3.Select(old, r))), "loop-frame")

    def st_While(self, node, fr):
        spec = self.find_loop_spec(node, fr)
        if spec is None or spec.unroll is not None:
            bound = spec.unroll if spec is not None else 0
            if spec is None:
                raise Unsupported(f"while loop without invariant: `while {ast.unparse(node.test)[:50]}`")
            self.bounded_used = True
            self.assumptions.add(f"BOUNDED: while `{ast.unparse(node.test)[:40]}` unrolled to {bound} iterations")
            for k in range(bound + 1):
                if not self.st.decide(self.truthy(self.ev(node.test, fr)), f"while{k}"):
                    self.exec_block(node.orelse, fr)
                    return
                if k == bound:
                    raise PathEnd()   # beyond the bound: not explored (bounded stand-in)
                try:
                    self.exec_block(node.body, fr)
                except BreakEx:
                    return
                except ContinueEx:
                    continue
            return
        self.invariant_loop(node, fr, spec, None, None)

    # ----------------------------------------------------------------------------------- comprehensions
    def ev_GeneratorExp(self, node, fr):
        return SV(None, Ty("iter"), ("genexp", node, fr))

    def ev_ListComp(self, node, fr):
        return self.comprehension_list(node, fr)

    def ev_DictComp(self, node, fr):
        """{k(x): v(x) for x in xs}: keys = the key list's elements; each stored value is the value computed for SOME source element
        with that key (which one wins among equal keys is not modelled)"""
        if self.pure:
            raise Unsupported("dict comprehension in a spec")
        st = self.st
        keys = self.comprehension_list(ast.ListComp(elt=node.key, generators=node.generators), fr)
        vals = self.comprehension_list(ast.ListComp(elt=node.value, generators=node.generators), fr)
        out = self.set_from_list(keys, as_dict=True)
        o = H.rid(out)
        out = SV(out.term, Ty("dict", (keys.ty.elt() if keys.ty else None, vals.ty.elt() if vals.ty else None)), out.meta)
        n = H.list_len(st, H.rid(keys))
        k = z3.Const(st.fresh_name("dk"), Val)
        src = st.fresh("dcsrc", z3.ArraySort(Val, INT))
        dval = st.fresh("dcval", z3.ArraySort(Val, Val))
        st.assume(z3.ForAll([k], z3.Implies(H.dict_has(st, o, k),
                                            z3.And(0 <= z3.Select(src, k), z3.Select(src, k) < n,
                                                   H.list_get(st, H.rid(keys), z3.Select(src, k)) == k,
                                                   z3.Select(dval, k) == H.list_get(st, H.rid(vals), z3.Select(src, k))))))
        st.write("$dval", o, dval)
        self.assumptions.add("A-DICTCOMP: dict comprehension values come from some source element with that key (last-wins not modelled)")
        return out

    def ev_SetComp(self, node, fr):
        lst = self.comprehension_list(node, fr)
        return self.set_from_list(lst)

    def comprehension_list(self, node, fr) -> SV:
        """[e(x) for x in xs (if c(x))]: concrete-length sources are unrolled; symbolic-length sources are axiomatised
        (map: same length & pointwise; filter: order-preserving subsequence through a ghost strictly increasing index map)."""
        st = self.st
        if len(node.generators) != 1:
            return self.comprehension_nested(node, fr)
        gen = node.generators[0]
        src = self.ev(gen.iter, fr)
        if src.meta and src.meta[0] == "genexp":
            src = self.comprehension_list(src.meta[1], src.meta[2])
        d = src.meta[1] if (src.meta and src.meta[0] == "lazyiter") else self.iterable(src, fr)
        n = self.iter_len(d)
        nc = z3.simplify(n)
        nf = Frame(fr.func, fr.module, None, parent_env=fr)
        top = getattr(self, "top_contract", None)
        bound = top.options.get("comp_bound") if top is not None else None
        if not z3.is_int_value(nc) and bound is not None and not self.pure:
            # BOUNDED stand-in: the source has at most `bound` elements; its length is decided case by case
            self.bounded_used = True
            self.assumptions.add(f"BOUNDED: comprehension sources limited to {bound} elements")
            st.assume(n <= bound)
            k = st.branch([n == c for c in range(bound + 1)], "comp-len")
            nc = z3.IntVal(k)
        if z3.is_int_value(nc) and nc.as_long() <= UNROLL_LIMIT and not self.pure:
            out = []
            ety = None
            for k in range(nc.as_long()):
                self.assign(gen.target, self.iter_get(d, z3.IntVal(k), fr), nf)
                ok = True
                for c in gen.ifs:
                    if not st.decide(self.truthy(self.ev(c, nf)), "comp-if"):
                        ok = False
                        break
                if ok:
                    e = self.ev(node.elt, nf)
                    ety = e.ty
                    out.append(self.need_term(e))
            return H.list_new(st, out, ty=Ty("list", (ety,) if ety else ()))
        j = z3.Int(st.fresh_name("cj"))
        self.pure += 1
        self.qdepth += 1
        saved_defs = self.defs
        self.defs = []
        try:
            if not gen.ifs:
                self.assign(gen.target, self.iter_get(d, j, fr), nf)
                e = self.ev(node.elt, nf)
                defs = self.defs
                out = H.list_new(st, None, n, ty=Ty("list", (e.ty,) if e.ty else ()))
                body = H.list_get(st, H.rid(out), j) == self.need_term(e)
                rng = z3.And(0 <= j, j < n)
            else:
                m = st.fresh("flen", INT)
                imap = st.fresh("fmap", z3.ArraySort(INT, INT))
                src_i = z3.Select(imap, j)
                self.assign(gen.target, self.iter_get(d, src_i, fr), nf)
                cond = z3.And([self.truthy(self.ev(c, nf)) for c in gen.ifs])
                e = self.ev(node.elt, nf)
                defs = self.defs
                out = H.list_new(st, None, m, ty=Ty("list", (e.ty,) if e.ty else ()))
                j2 = z3.Int(st.fresh_name("cj2"))
                st.assume(z3.And(m >= 0, m <= n))
                st.assume(z3.ForAll([j, j2], z3.Implies(z3.And(0 <= j, j < j2, j2 < m), z3.Select(imap, j) < z3.Select(imap, j2))))
                body = z3.And(0 <= src_i, src_i < n, cond, H.list_get(st, H.rid(out), j) == self.need_term(e))
                rng = z3.And(0 <= j, j < m)
                # completeness: every source index satisfying the filter is hit
                s = z3.Int(st.fresh_name("cs"))
                self.assign(gen.target, self.iter_get(d, s, fr), nf)
                cond_s = z3.And([self.truthy(self.ev(c, nf)) for c in gen.ifs])
                back = st.fresh("fback", z3.ArraySort(INT, INT))
                st.assume(z3.ForAll([s], z3.Implies(z3.And(0 <= s, s < n, cond_s),
                                                    z3.And(0 <= z3.Select(back, s), z3.Select(back, s) < m,
                                                           z3.Select(imap, z3.Select(back, s)) == s))))
        finally:
            self.pure -= 1
            self.qdepth -= 1
            self.defs = saved_defs
        if defs:
            alldef = z3.ForAll([j], z3.Implies(rng, z3.And(defs)))
            if self.pure:
                self.defs.append(alldef)
            else:
                self.raise_if(z3.Not(alldef), "KeyError", "comprehension element undefined")
        st.assume(z3.ForAll([j], z3.Implies(rng, body)))
        self.assumptions.add("A-COMP: comprehensions over symbolic-length sources axiomatised (map pointwise / filter as ordered subsequence)")
        return out

    def comprehension_nested(self, node, fr):
        """several generators: exec-mode unrolling only (every source of concrete or BOUNDED length)"""
        st = self.st
        if self.pure:
            raise Unsupported("comprehension with several generators in a spec: " + ast.unparse(node)[:60])
        top = getattr(self, "top_contract", None)
        bound = top.options.get("comp_bound") if top is not None else None
        out, ety = [], [None]

        def rec(gi, nf):
            if gi == len(node.generators):
                e = self.ev(node.elt, nf)
                ety[0] = e.ty
                out.append(self.need_term(e))
                return
            gen = node.generators[gi]
            src = self.ev(gen.iter, nf)
            if src.meta and src.meta[0] == "genexp":
                src = self.comprehension_list(src.meta[1], src.meta[2])
            d = src.meta[1] if (src.meta and src.meta[0] == "lazyiter") else self.iterable(src, nf)
            n = self.iter_len(d)
            nc = z3.simplify(n)
            if not z3.is_int_value(nc):
                if bound is None:
                    raise Unsupported("comprehension with several generators over a symbolic-length source: " + ast.unparse(node)[:60])
                self.bounded_used = True
                self.assumptions.add(f"BOUNDED: comprehension sources limited to {bound} elements")
                st.assume(n <= bound)
                nc = z3.IntVal(st.branch([n == c for c in range(bound + 1)], "comp-len"))
            for k in range(nc.as_long()):
                inner = Frame(nf.func, nf.module, None, parent_env=nf)
                self.assign(gen.target, self.iter_get(d, z3.IntVal(k), nf), inner)
                ok = True
                for c in gen.ifs:
                    if not st.decide(self.truthy(self.ev(c, inner)), "comp-if"):
                        ok = False
                        break
                if ok:
                    rec(gi + 1, inner)
        rec(0, Frame(fr.func, fr.module, None, parent_env=fr))
        return H.list_new(st, out, ty=Ty("list", (ety[0],) if ety[0] else ()))

    def quantified_genexp(self, name, node, fr):
        """all(P for x in xs ...) / any(...) -> ForAll / Exists over index variables (several generators allowed)."""
        st = self.st
        nf = Frame(fr.func, fr.module, None, parent_env=fr)
        bound, guards = [], []
        self.pure += 1
        self.qdepth += 1
        try:
            for gen in node.generators:
                src = self.ev(gen.iter, nf)
                if src.meta and src.meta[0] == "genexp":
                    raise Unsupported("nested generator source")
                if src.meta and src.meta[0] == "oldview":
                    # quantification over the contents the container HAD (old(c) / pre(c) as a generator source)
                    view = src
                    src = SV(src.term, src.ty)
                    self.in_view(view, lambda: self._quant_gen_setup(gen, src, nf, bound, guards))
                else:
                    self._quant_gen_setup(gen, src, nf, bound, guards)
                for c in gen.ifs:           # filter conditions read the CURRENT heap
                    guards.append(self.truthy(self.ev(c, nf)))
            body = self.truthy(self.ev(node.elt, nf))
        finally:
            self.pure -= 1
            self.qdepth -= 1
        if name == "all":
            return SV(mk_bool(z3.ForAll(bound, z3.Implies(z3.And(guards), body))), Ty("bool"))
        return SV(mk_bool(z3.Exists(bound, z3.And(z3.And(guards), body))), Ty("bool"))

    def _quant_gen_setup(self, gen, src, nf, bound, guards):
        st = self.st
        if True:
            if True:
                d = src.meta[1] if (src.meta and src.meta[0] == "lazyiter") else self.iterable(src, nf)
                j = z3.Int(st.fresh_name("q"))
                bound.append(j)
                is_lazy = bool(src.meta and src.meta[0] == "lazyiter")
                if d[0] == "dictitems" and d[1] in ("keys", "items") and not is_lazy and \
                        ((src.ty is not None and src.ty.name in ("dict", "set")) or (src.meta and src.meta[0] == "dictview")):
                    # quantify over the KEYS themselves (membership), not over positions in the iteration order
                    dsv = src if src.term is not None else src.meta[2]
                    kv = z3.Const(st.fresh_name("qk"), Val)
                    bound[-1] = kv
                    guards.append(H.dict_has(st, H.rid(dsv), kv))
                    guards.append(self.type_pred(kv, d[4], nf))
                    ksv = SV(kv, d[4])
                    if d[1] == "keys":
                        self.assign(gen.target, ksv, nf)
                    else:
                        self.assign(gen.target, self.mk_tuple_pure([ksv, SV(z3.Select(d[3], kv), d[5])]), nf)
                elif d[0] == "range":
                    guards.append(z3.And(z3.simplify(d[1]) <= j, j < z3.simplify(d[2])))
                    self.assign(gen.target, SV(mk_int(j), Ty("int")), nf)
                else:
                    guards.append(z3.And(0 <= j, j < self.iter_len(d)))
                    self.assign(gen.target, self.iter_get(d, j, nf), nf)
