"""Sidecar contract objects. Repository files are never annotated; contracts are keyed by qualified name and
loops by the text of their header (`ast.unparse` of `for <target> in <iter>` / `while <test>`), with an ordinal
suffix `#k` only when the same header occurs twice in a function."""
from __future__ import annotations

from dataclasses import dataclass, field
from typing import Callable


@dataclass
class LoopSpec:
    invariant: list = field(default_factory=list)   # spec expressions; `idx` = number of completed iterations
    step: list = field(default_factory=list)        # per-iteration postconditions; pre(e) = value at iteration start
    frame: dict | None = None                       # heap field -> list of spec exprs (refs that may change); None = all
    decreases: str | None = None                    # variant for while loops (int expression, must be >= 0 and decrease)
    unroll: int | None = None                       # bounded stand-in ONLY (labelled bounded in the evidence)
    ghost_step: Callable | None = None              # ghost update executed at the end of each iteration
    ghost: dict = field(default_factory=dict)       # ghost arrays owned by the loop: name -> "int->int" | "int->val" | "val->val" | "val->int" | "val->bool"
    ghost_update: dict = field(default_factory=dict)  # name -> (key spec expr, value spec expr), evaluated at iteration end
    assumed: bool = False                           # the invariant is ASSUMED after the havoc and neither established nor preserved by a proof
    #                                                 (listed among the assumptions; only the code after the loop is verified against it)


@dataclass
class Contract:
    target: str                                     # "module:Class.method" | "module:function"
    types: dict = field(default_factory=dict)       # name -> annotation string (params / locals / fields as 'Class.field')
    requires: list = field(default_factory=list)
    ensures: list = field(default_factory=list)     # str or (label, str); `result`, old(e) available
    exc_ensures: dict = field(default_factory=dict)  # exception class -> [spec exprs] that hold on that exceptional exit
    raises: dict | None = None                      # exception class -> condition over the ENTRY state under which it may
    #                                                 escape (None: exceptional exits unconstrained, "no_raise": {} )
    modifies: dict | None = None                    # heap field -> list of spec exprs (refs) ; None = syntactic write set
    loops: dict = field(default_factory=dict)       # loop header text -> LoopSpec
    calls: dict = field(default_factory=dict)       # call text (ast.unparse of func expr) -> handler(ctx, args, kwargs)
    inline: bool = False                            # callers inline the body instead of using the contract
    ghost_init: Callable | None = None              # ctx -> None, run at entry (after requires assumed)
    on_yield: Callable | None = None                # interference handler at yield/await
    on_exit: Callable | None = None                 # ctx, kind('return'|'raise'), value -> None : extra obligations at exits
    witness: Callable | None = None                 # ctx, model -> json-able concretisation for replay
    assumed: bool = False                           # contract is NOT verified against a body (external / trusted)
    note: str = ""
    self_class: str | None = None                   # override the class assumed for `self`
    options: dict = field(default_factory=dict)
    variant: str = ""                               # several contracts for one function (different argument types)

    @property
    def key(self):
        return self.target + ("#" + self.variant if self.variant else "")

    def label_ensures(self):
        out = []
        for k, e in enumerate(self.ensures):
            if isinstance(e, tuple):
                out.append(e)
            else:
                out.append((f"post{k}", e))
        return out
