import os
import sys

VERIF = os.path.dirname(os.path.dirname(os.path.abspath(__file__)))


def main(argv):
    if not argv:
        print("usage: check <Cnn> [--tier quick|thorough] [--write-baseline] [--replay file]")
        return 3
    prop = argv[0]
    tier = os.environ.get("VERIF_TIER", "quick")
    wb = False
    replay = None
    i = 1
    while i < len(argv):
        if argv[i] == "--tier":
            tier = argv[i + 1]
            i += 2
        elif argv[i] == "--write-baseline":
            wb = True
            i += 1
        elif argv[i] == "--replay":
            replay = argv[i + 1]
            i += 2
        else:
            i += 1
    sys.path.insert(0, VERIF)
    modname = "contracts." + prop.lower()
    if replay:
        import importlib
        import json
        sys.path.insert(0, os.environ.get("VERIF_REPO", "/repo"))
        m = importlib.import_module(modname)
        d = json.load(open(replay))
        res = m.replay(d["obligation"], d["witness"])
        print(json.dumps(res, indent=1, default=str))
        return 1 if res.get("confirmed") else 0
    from pyvc.driver import run_property
    try:
        return run_property(modname, tier, wb)
    except Exception:
        import traceback
        traceback.print_exc()
        print(f"CHECKER-ERROR property={prop} driver crashed")
        return 3


if __name__ == "__main__":
    sys.exit(main(sys.argv[1:]))
