"""Function-level verification: spec evaluation, modular calls, frames, the path-exploration driver."""
from __future__ import annotations

import ast
import os
import time
import traceback
from dataclasses import dataclass, field

import z3

from .repo import Repo, Ty, parse_ann, FuncInfo
from .smt import IV, RV, BV, SVs, RID, Val, INT, NONE, mk_int, mk_real, mk_bool, mk_str, mk_ref, num, simplify_bool
from .state import SV, State, Unsupported, PyRaise, PathEnd, ReturnEx, BreakEx, ContinueEx, Obligation
from .executor import ExecutorBase, Frame
from .access import AccessMixin
from .builtins import BuiltinsMixin
from .stmts import StmtMixin
from .spec import Contract, LoopSpec
from . import heapops as H

LIST_FIELDS = ("$len", "$items")
DICT_FIELDS = ("$dhas", "$dval", "$dcnt", "$dord", "$dpos")
LIST_MUT = {"append", "extend", "insert", "pop", "clear", "sort", "remove", "reverse"}
DICT_MUT = {"pop", "clear", "update", "setdefault", "add", "discard", "remove", "popitem"}


class Executor(AccessMixin, BuiltinsMixin, StmtMixin, ExecutorBase):
    # ------------------------------------------------------------------------------------------ specs
    def spec_eval(self, expr: str, fr: Frame) -> SV:
        node = ast.parse(expr.strip(), mode="eval").body
        self.pure += 1
        saved = self.defs
        self.defs = []
        try:
            return self.ev(node, fr)
        finally:
            self.pure -= 1
            self.defs = saved

    def spec_bool(self, expr: str, fr: Frame):
        return self.truthy(self.spec_eval(expr, fr))

    def spec_call(self, node, fr):
        """spec-only functions, available in pure mode"""
        name = node.func.id
        if name in ("old", "pre", "at_loop_entry"):
            if name == "old":
                f = fr
                while f.entry_heap is None and f.parent_env is not None:
                    f = f.parent_env
                heap, locs = f.entry_heap, f.entry_locals
            elif name == "pre":
                f = fr
                while not f.pre_stack and f.parent_env is not None:
                    f = f.parent_env
                heap, locs = f.pre_stack[-1]
            else:
                f = fr
                while getattr(f, "loop_entry", None) is None and f.parent_env is not None:
                    f = f.parent_env
                heap, locs = f.loop_entry
            if heap is None:
                raise Unsupported(name + "() outside a verified function")
            res = self.with_heap(heap, locs, lambda: self.ev(node.args[0], fr), owner=f)
            if res.term is not None and res.meta is None and res.ty is not None and res.ty.name in ("list", "dict", "set"):
                # a container seen through old()/pre()/at_loop_entry(): its CONTENTS are those of that earlier heap as well
                # (iteration, membership, has_key, len and subscripts on the result read the earlier heap)
                res = SV(res.term, res.ty, ("oldview", heap, locs, f))
            return res
        if name == "implies":
            a = self.truthy(self.ev(node.args[0], fr))
            b = self.truthy(self.ev(node.args[1], fr))
            return SV(mk_bool(z3.Implies(a, b)), Ty("bool"))
        if name == "iff":
            a = self.truthy(self.ev(node.args[0], fr))
            b = self.truthy(self.ev(node.args[1], fr))
            return SV(mk_bool(a == b), Ty("bool"))
        if name == "ite":
            c = self.truthy(self.ev(node.args[0], fr))
            a, b = self.ev(node.args[1], fr), self.ev(node.args[2], fr)
            return SV(z3.If(c, a.term, b.term), a.ty if a.ty == b.ty else None)
        if name == "ghost":
            key = node.args[0].value
            g = self.st.ghost.get(key)
            if g is None:
                g = SV(self.st.fresh_val("ghost_" + key), None)     # never set on this path: unconstrained
                self.st.ghost[key] = g
            return g
        if name == "fresh":
            v = self.ev(node.args[0], fr)
            f = fr
            while f.entry_alloc is None and f.parent_env is not None:
                f = f.parent_env
            return SV(mk_bool(z3.And(Val.is_VRef(v.term), RID(v.term) >= f.entry_alloc)), Ty("bool"))
        if name == "forall_objects":
            # heap-wide quantifier: forall_objects('Cls', lambda x: P(x)) over every allocated instance of Cls
            ci = self.repo.resolve_class(node.args[0].value, fr.module)
            lam = node.args[1]
            v = z3.Const("o!" + lam.args.args[0].arg, Val)
            subs = self.repo.subclasses(ci)
            guard = z3.And(Val.is_VRef(v), z3.Or([self.st.read("$type", RID(v)) == c.cid for c in subs]))
            nf = Frame(fr.func, fr.module, None, parent_env=fr)
            nf.locals[lam.args.args[0].arg] = SV(v, Ty(ci.name))
            self.qdepth += 1
            try:
                body = self.truthy(self.ev(lam.body, nf))
            finally:
                self.qdepth -= 1
            return SV(mk_bool(z3.ForAll([v], z3.Implies(guard, body))), Ty("bool"))
        if name == "keys_of":
            # positional view of a dict's keys (iteration order), nothing allocated: all(... for k in keys_of(d))
            d = self.ev(node.args[0], fr)
            return SV(NONE, Ty("list", (d.ty.elt(0),) if d.ty and d.ty.elt(0) else ()), ("lazyiter", self.dict_iter_desc("keys", d)))
        if name == "key_at":
            # the j-th key of a dict/set in iteration order (no definedness obligation: callers bound j by len(d))
            d, j = self.ev(node.args[0], fr), self.ev(node.args[1], fr)
            return SV(z3.Select(self.st.read("$dord", H.rid(d)), IV(j.term)), d.ty.elt(0) if d.ty else None)
        if name == "same_elements":
            a, b = self.ev(node.args[0], fr), self.ev(node.args[1], fr)
            return SV(mk_bool(self.list_eq(a, b)), Ty("bool"))
        if name == "has_key":
            d, k = self.ev(node.args[0], fr), self.ev(node.args[1], fr)
            return SV(mk_bool(self.in_view(d, lambda: H.dict_has(self.st, H.rid(d), self.need_term(k)))), Ty("bool"))
        if name == "typed":
            v = self.ev(node.args[0], fr)
            t = parse_ann(node.args[1].value)
            return SV(v.term, t)
        if name == "is_instance":
            v = self.ev(node.args[0], fr)
            cn = ast.Name(node.args[1].value)
            cn.spec_class_name = True
            return SV(mk_bool(self.isinstance_(v, cn, fr)), Ty("bool"))
        h = self.spec_funcs.get(name) if hasattr(self, "spec_funcs") else None
        if h is not None:
            from .api import Ctx
            args = [self.ev(a, fr) for a in node.args]
            return h(Ctx(self, fr, name, node), *args)
        return None

    def in_view(self, sv, thunk):
        """run `thunk` against the heap a container value was taken from (old()/pre() views), else against the current heap"""
        m = getattr(sv, "meta", None)
        if m and m[0] == "oldview":
            return self.with_heap(m[1], m[2], thunk, owner=m[3])
        return thunk()

    def with_heap(self, heap, locs, thunk, owner=None):
        st = self.st
        cur = st.heap
        tmp = dict(heap)
        st.heap = tmp
        prev_old = self.old_mode
        self.old_mode = (heap, locs or {}, owner)
        try:
            return thunk()
        finally:
            st.heap = cur
            self.old_mode = prev_old
            for k, v in tmp.items():
                if k not in cur:
                    cur[k] = v        # initial constant created lazily; never written so far
                if k not in heap:
                    heap[k] = v

    def witness_fn(self, fr):
        c = fr.contract
        while c is None and fr.parent_env is not None:
            fr = fr.parent_env
            c = fr.contract
        if c is None or c.witness is None:
            return None
        from .api import Ctx
        ctx = Ctx(self, fr, "witness", None)
        return lambda model: c.witness(ctx, model)


def eval_spec_list(ex: Executor, specs, fr: Frame):
    out = []
    for k, s in enumerate(specs):
        if isinstance(s, tuple):
            lab, e = s
        else:
            lab, e = f"{k}", s
        if callable(e):
            from .api import Ctx
            f = e(Ctx(ex, fr, lab, None))
        else:
            f = ex.spec_bool(e, fr)
        out.append((lab, f))
    return out


# ------------------------------------------------------------------------------------------ write sets
def loop_write_set(ex: Executor, stmts, fr: Frame, depth=0, seen=None) -> set:
    """Syntactic over-approximation of the heap fields a statement list may write ('*' = everything)."""
    seen = seen if seen is not None else set()
    out = set()
    for s in stmts:
        for n in ast.walk(s):
            if isinstance(n, (ast.Assign, ast.AugAssign, ast.AnnAssign)):
                tgts = n.targets if isinstance(n, ast.Assign) else [n.target]
                for t in tgts:
                    for tt in ast.walk(t):
                        if isinstance(tt, ast.Attribute) and isinstance(tt.ctx, ast.Store):
                            out.add(tt.attr)
                        elif isinstance(tt, ast.Subscript) and isinstance(tt.ctx, ast.Store):
                            out.update(LIST_FIELDS)
                            out.update(DICT_FIELDS)
            elif isinstance(n, (ast.Yield, ast.YieldFrom, ast.Await)):
                # an interference point inside the loop: everything the interference may change is part of what an arbitrary number
                # of iterations may have changed (declared by the on_yield handler's `.modifies`, else everything)
                h = None
                f_ = fr
                while f_ is not None and h is None:
                    h = getattr(f_.contract, "on_yield", None) if f_.contract is not None else None
                    f_ = f_.parent_env
                if h is None and getattr(ex, "top_contract", None) is not None:
                    h = ex.top_contract.on_yield
                if h is not None:
                    mods = getattr(h, "modifies", None)
                    if mods is None:
                        out.add("*")
                    else:
                        out.update(mods)
            elif isinstance(n, ast.Delete):
                out.update(DICT_FIELDS)
            elif isinstance(n, (ast.ListComp, ast.List, ast.Tuple, ast.Dict, ast.Set, ast.SetComp, ast.DictComp)):
                pass  # allocations write only fresh refs (alloc' >= alloc is always havocked)
            elif isinstance(n, ast.Call):
                if ex.is_logger_call(n):
                    continue
                text = ast.unparse(n.func)
                h = ex.find_call_handler(text, fr)
                if h is not None:
                    mods = getattr(h, "modifies", None)
                    if mods is None:
                        out.add("*")
                    else:
                        out.update(mods)
                    continue
                if isinstance(n.func, ast.Attribute):
                    a = n.func.attr
                    if a in LIST_MUT:
                        out.update(LIST_FIELDS)
                    if a in DICT_MUT:
                        out.update(DICT_FIELDS)
                    if a in LIST_MUT or a in DICT_MUT or a in ("items", "keys", "values", "get", "startswith", "strip",
                                                                 "split", "lower", "endswith", "join", "format", "copy",
                                                                 "index", "upper"):
                        # could also be a repo method of that name; checked below
                        pass
                    cands = _method_candidates(ex, a, n, fr)
                    rv = n.func.value
                    if isinstance(rv, ast.Name) and (a in LIST_MUT or a in DICT_MUT or a in PURE_METHODS):
                        loc = fr.lookup(rv.id)
                        if loc is not None and loc.ty is not None and loc.ty.name in ("list", "dict", "set"):
                            cands = []      # receiver is a local builtin container: not a repo method of the same name
                    for fi in cands:
                        out |= _callee_writes(ex, fi, fr, depth, seen)
                    if not cands and a not in LIST_MUT and a not in DICT_MUT and a not in PURE_METHODS:
                        out.add("*")
                elif isinstance(n.func, ast.Name):
                    nm = n.func.id
                    if nm in PURE_BUILTINS:
                        continue
                    loc = fr.lookup(nm)
                    if loc is not None and loc.meta and loc.meta[0] in ("closure", "lambda"):
                        ck = "closure@%d" % id(loc.meta[1])
                        if seen is not None and ck in seen:
                            continue            # recursive local function: already accounted for
                        if seen is not None:
                            seen.add(ck)
                        body = loc.meta[1].body
                        out |= loop_write_set(ex, body if isinstance(body, list) else [ast.Expr(body)], fr, depth + 1, seen)
                        continue
                    kind, obj = ex.repo.resolve_in_module(fr.module, nm)
                    if kind == "func":
                        out |= _callee_writes(ex, obj, fr, depth, seen)
                    elif kind == "class":
                        init = obj.find_method(ex.repo, "__init__")
                        if init is not None:
                            out |= _callee_writes(ex, init, fr, depth, seen) - set()  # writes to the fresh object only (approx.)
                    elif nm in ("old", "pre", "implies"):
                        pass
                    else:
                        out.add("*")
                else:
                    out.add("*")
    return out


PURE_BUILTINS = {"len", "isinstance", "issubclass", "str", "int", "float", "bool", "zip", "enumerate", "range", "list",
                 "dict", "set", "tuple", "min", "max", "abs", "any", "all", "sorted", "type", "print", "repr", "id",
                 "super", "round", "sum", "Exception", "ValueError", "KeyError", "TypeError", "NotImplementedError",
                 "AssertionError", "IndexError", "RuntimeError"}
PURE_METHODS = {"items", "keys", "values", "get", "startswith", "endswith", "strip", "split", "lower", "upper", "join",
                "format", "copy", "index", "count", "find", "isdigit", "replace", "time", "isclose", "lstrip", "rstrip"}


def _method_candidates(ex, attr, call, fr):
    """repo methods named `attr` that the call may dispatch to (receiver type is not known syntactically)"""
    ex.repo.load_all()
    out = []
    recv = call.func.value
    if isinstance(recv, ast.Name) and recv.id == "self" and fr.func is not None and fr.func.cls is not None:
        fi = fr.func.cls.find_method(ex.repo, attr)
        if fi is not None:
            return [fi]
    for lst in ex.repo._class_by_name.values():
        for ci in lst:
            if attr in ci.methods:
                out.append(ci.methods[attr])
    return out


def _callee_writes(ex, fi: FuncInfo, fr, depth, seen) -> set:
    if fi.qualname in seen or depth > 6:
        return set()
    seen.add(fi.qualname)
    c = ex.contracts.get(fi.qualname)
    if c is not None and c.modifies is not None:
        return set(c.modifies.keys())
    nf = Frame(fi, fi.module, c)
    return loop_write_set(ex, fi.node.body, nf, depth + 1, seen)


def havoc_written(ex: Executor, fields: set, frame_spec, fr: Frame, entry_alloc):
    """Havoc the given fields. frame_spec: None (full havoc) or {field: [ref exprs]} naming the only pre-existing refs
    whose entries may change; objects allocated after `entry_alloc` are always unconstrained."""
    st = ex.st
    if "*" in fields:
        fields = set(st.heap.keys()) | {f for f in fields if f != "*"}
        ex.assumptions.add("full heap havoc at a loop/call (callee outside the index)")
    if frame_spec is not None:
        for f in frame_spec:
            if f not in fields and f != "*":
                pass
    na = st.fresh("alloc", INT)
    st.assume(na >= st.alloc)
    for f in sorted(fields):
        allowed = None
        if frame_spec is not None:
            allowed = frame_spec.get(f, frame_spec.get("*"))
            if allowed is None and f in frame_spec.get("$preserve", []):
                continue
        if frame_spec is not None and allowed is None:
            # field written by the body but the frame says nothing changes on pre-existing refs
            refs = []
        elif allowed is None:
            st.havoc_field(f)
            continue
        else:
            refs = []
            for e in allowed:
                if e == "*":
                    refs = None
                    break
                sv = ex.spec_eval(e, fr) if isinstance(e, str) else e
                refs.append(sv.term)
            if refs is None:
                st.havoc_field(f)
                continue
        a0 = entry_alloc

        def keep(r, refs=refs, a0=a0):
            # a frame expression that evaluates to None names no object
            return z3.And(r < a0, *[z3.Or(z3.Not(Val.is_VRef(x)), r != RID(x)) for x in refs])
        st.havoc_field(f, keep_pred=keep)
    st.alloc = na
    # container sanity after havoc
    if "$len" in fields:
        r = z3.Int("r!len")
        st.assume(z3.ForAll([r], z3.Select(st.field("$len"), r) >= 0))


# --------------------------------------------------------------------------------- modular call rule
def apply_contract(ex: Executor, c: Contract, fi: FuncInfo, args, kwargs, fr: Frame, selfsv, node) -> SV:
    st = ex.st
    ex.used_contracts.add(c.target)
    nf = Frame(fi, fi.module, c)
    ex.bind_params(fi, nf, args, kwargs, selfsv)
    _apply_type_hints(ex, c, nf)
    short = fi.qualname.split(":")[1]
    caller = fr.func.qualname.split(":")[1] if fr.func else "?"
    # 1. precondition at the call site
    for lab, f in eval_spec_list(ex, c.requires, nf):
        st.check(f"{ex.prop_id}/{caller}/call[{short}]/requires:{lab}", f, "call-precondition", ex.witness_fn(fr))
    # 2. frame
    nf.entry_heap, nf.entry_alloc = st.snapshot()
    nf.entry_locals = dict(nf.locals)
    if c.modifies is not None:
        fields = set(c.modifies.keys())
        frame_spec = c.modifies
    else:
        fields = loop_write_set(ex, fi.node.body, nf)
        frame_spec = None
    havoc_written(ex, fields, frame_spec, nf, nf.entry_alloc)
    # 3. exceptional outcomes allowed by the contract
    outcomes = ["return"]
    if c.raises is None:
        if c.options.get("may_raise"):
            outcomes += list(c.options["may_raise"])
    else:
        outcomes += list(c.raises.keys())
    if len(outcomes) > 1:
        k = st.branch([True] * len(outcomes), f"outcome[{short}]")
    else:
        k = 0
    if k > 0:
        exc = outcomes[k]
        cond = (c.raises or {}).get(exc)
        if cond is not None and cond != "True":
            f = ex.with_heap(nf.entry_heap, nf.entry_locals, lambda: ex.spec_bool(cond, nf), owner=nf)
            st.assume(f)
            if not st.feasible():
                raise PathEnd()
        for lab, f in eval_spec_list(ex, c.exc_ensures.get(exc, []) + c.exc_ensures.get("*", []), nf):
            st.assume(f)
        raise PyRaise(exc, None, f"from contract of {short}")
    # normal return: exclude the exception conditions that are stated as `iff`
    for exc, cond in (c.options.get("raises_iff") or {}).items():
        f = ex.with_heap(nf.entry_heap, nf.entry_locals, lambda: ex.spec_bool(cond, nf), owner=nf)
        st.assume(z3.Not(f))
    rty = parse_ann(fi.node.returns) if fi.node.returns is not None else None
    if "result" in c.types:
        rty = parse_ann(c.types["result"])
    res = ex.fresh_sv("ret_" + fi.name, rty)
    if rty is not None and rty.name in ("list", "tuple"):
        pass
    nf.locals["result"] = res
    if any(isinstance(e, str) and "ghost('now')" in e for _l, e in c.label_ensures()):
        ex.call_external("time.time", [], {}, nf, None)      # the callee's clock reading: a fresh non-decreasing real
    for lab, f in eval_spec_list(ex, [e for _l, e in c.label_ensures()], nf):
        st.assume(f)
    if not st.feasible():
        raise PathEnd()
    return res


def _apply_type_hints(ex, c: Contract, nf: Frame):
    for name, sv in list(nf.locals.items()):
        if name in c.types and sv.term is not None and (sv.ty is None or sv.ty.name in ("any",)):
            t = parse_ann(c.types[name])
            nf.locals[name] = SV(sv.term, t, sv.meta)


# -------------------------------------------------------------------------------------- top level
@dataclass
class FunctionReport:
    qualname: str
    file: str = ""
    sha256: str = ""
    status: str = "ok"                # ok | not-verifiable | crashed
    reason: str = ""
    paths: int = 0
    exits_normal: int = 0
    exits_exceptional: int = 0
    feasible_exits: int = 0
    unreached: list = field(default_factory=list)
    obligations: list = field(default_factory=list)
    dropped: list = field(default_factory=list)
    assumptions: list = field(default_factory=list)
    inlined: list = field(default_factory=list)
    used_contracts: list = field(default_factory=list)
    bounded: bool = False
    seconds: float = 0.0
    solver_seconds: float = 0.0


def verify_function(repo: Repo, contracts: dict, target: str, prop_id: str, max_paths=4000, timeout_ms=None,
                    spec_funcs=None) -> FunctionReport:
    c: Contract = contracts[target]
    rep = FunctionReport(target)
    t0 = time.time()
    target = c.target
    try:
        fi = repo.func(target)
    except KeyError as e:
        rep.status, rep.reason = "not-verifiable", f"anchor not found: {e}"
        return rep
    rep.file, rep.sha256 = fi.module.path, fi.sha256
    short = target.split(":")[1]
    ex = Executor(repo, contracts, prop_id)
    ex.top_qualname = target
    ex.top_contract = c
    Frame.top_contract = c
    ex.spec_funcs = spec_funcs or {}
    ex.bounded_used = False
    ex.lenient = bool(c.options.get("lenient"))
    State.qf_mode = bool(c.options.get("qf"))
    ex.protect = c.options.get("protect")
    ex.protect_hook = c.options.get("protect_hook")
    work = [[]]
    try:
        while work:
            prefix = work.pop()
            rep.paths += 1
            if rep.paths > max_paths:
                rep.status, rep.reason = "not-verifiable", f"path budget {max_paths} exceeded"
                break
            st = State(prefix, timeout_ms)
            ex.st = st
            ex._depth, ex._stack = 0, []
            fr = Frame(fi, fi.module, c)
            try:
                _run_path(ex, c, fi, fr, short, rep)
            except PathEnd:
                pass
            rep.obligations.extend(st.obligations)
            rep.solver_seconds += st.solver_time
            work.extend(st.pending)
    except Unsupported as e:
        rep.status, rep.reason = "not-verifiable", f"outside subset: {e}"
        if os.environ.get("PYVC_TRACE"):
            rep.reason += "\n" + traceback.format_exc()[-2500:]
    except Exception as e:  # checker bug: never a verdict
        rep.status, rep.reason = "crashed", f"{type(e).__name__}: {e}\n{traceback.format_exc()[-1500:]}"
    rep.dropped = sorted(ex.dropped)
    rep.assumptions = sorted(ex.assumptions)
    rep.inlined = sorted(ex.inlined)
    rep.used_contracts = sorted(ex.used_contracts)
    rep.bounded = ex.bounded_used
    rep.unreached = sorted(k for k, v in ex.reach.items() if v == 0)
    rep.seconds = time.time() - t0
    return rep


def _setup_entry(ex: Executor, c: Contract, fi: FuncInfo, fr: Frame):
    st = ex.st
    a = fi.node.args
    params = [p for p in a.posonlyargs + a.args + a.kwonlyargs]
    for k, p in enumerate(params):
        ty = None
        if p.arg in c.types:
            ty = parse_ann(c.types[p.arg])
        elif k == 0 and fi.cls is not None and not fi.is_static:
            ty = Ty(c.self_class or fi.cls.name)
        elif p.annotation is not None:
            ty = parse_ann(p.annotation)
        sv = ex.fresh_sv("p_" + p.arg, ty)
        if k == 0 and fi.cls is not None and not fi.is_static and not fi.is_classmethod and c.self_class is None:
            # A-SELF-EXACT: self is dispatched as an instance of exactly the class that defines the method
            pass
        fr.locals[p.arg] = sv
    if a.vararg is not None or a.kwarg is not None:
        for extra in (a.vararg, a.kwarg):
            if extra is not None:
                ty = parse_ann(c.types[extra.arg]) if extra.arg in c.types else Ty("tuple" if extra is a.vararg else "dict")
                fr.locals[extra.arg] = ex.fresh_sv("p_" + extra.arg, ty)
    for lab, f in eval_spec_list(ex, c.requires, fr):
        st.assume(f)
    if c.ghost_init is not None:
        from .api import Ctx
        c.ghost_init(Ctx(ex, fr, "ghost_init", None))
    fr.entry_heap, fr.entry_alloc = st.snapshot()
    fr.entry_locals = dict(fr.locals)
    fr.entry_ghost = dict(st.ghost)


def _run_path(ex: Executor, c: Contract, fi: FuncInfo, fr: Frame, short: str, rep: FunctionReport):
    st = ex.st
    ex.top_frame = fr
    _setup_entry(ex, c, fi, fr)
    if not st.feasible():
        st.obligations.append(Obligation(f"{ex.prop_id}/{short}/vacuity:requires-satisfiable", "vacuity", "failed",
                                         "z3-5.1(api,incremental)", 0.0, st.path_sig(), "precondition unsatisfiable"))
        raise PathEnd()
    wf = ex.witness_fn(fr)
    try:
        ex.allow_generator_inline = True
        ex.exec_block(fi.node.body, fr)
        result = SV(NONE, Ty("none"))
        kind = "return"
    except ReturnEx as r:
        result, kind = r.val, "return"
    except PyRaise as e:
        result, kind = e, "raise"
    if kind == "return":
        rep.exits_normal += 1
        if result.term is None:
            try:
                result = SV(ex.need_term(result), result.ty, result.meta)
            except Unsupported:
                result = SV(NONE, Ty("none"), result.meta)
        fr.locals["result"] = result
        for lab, e in c.label_ensures():
            for _l, f in eval_spec_list(ex, [e], fr):
                st.check(f"{ex.prop_id}/{short}/ensures:{lab}", f, "postcondition", wf)
        _check_frame(ex, c, fi, fr, short, wf)
    else:
        rep.exits_exceptional += 1
        exc: PyRaise = result
        if c.raises is not None:
            allowed = [k for k in c.raises if ex.exc_is_subclass(exc.cls, k)]
            if not allowed:
                st.check(f"{ex.prop_id}/{short}/raises-only:{exc.cls}", z3.BoolVal(False), "exception-freedom", wf,
                         detail=f"{exc.cls} escapes ({exc.note})")
            else:
                cond = c.raises[allowed[0]]
                if cond not in (None, "True"):
                    f = ex.with_heap(fr.entry_heap, fr.entry_locals, lambda: ex.spec_bool(cond, fr), owner=fr)
                    st.check(f"{ex.prop_id}/{short}/raises-when:{exc.cls}", f, "exception-condition", wf)
        specs = c.exc_ensures.get(exc.cls, []) + c.exc_ensures.get("*", [])
        for lab, f in eval_spec_list(ex, specs, fr):
            st.check(f"{ex.prop_id}/{short}/exc-ensures[{exc.cls}]:{lab}", f, "exceptional-postcondition", wf)
    if kind == "return":
        for exc, cond in (c.options.get("raises_iff") or {}).items():
            f = ex.with_heap(fr.entry_heap, fr.entry_locals, lambda: ex.spec_bool(cond, fr), owner=fr)
            st.check(f"{ex.prop_id}/{short}/must-raise:{exc}", z3.Not(f), "exception-condition", wf)
    if c.on_exit is not None:
        from .api import Ctx
        c.on_exit(Ctx(ex, fr, "exit", None), kind, result)
    # vacuity canary: this exit is reachable (the path condition is satisfiable)
    if st.reachable():
        rep.feasible_exits += 1


def _check_frame(ex, c: Contract, fi, fr, short, wf):
    """modifies clause: every field is unchanged on pre-existing refs outside the named ones"""
    if c.modifies is None:
        return
    st = ex.st
    for f, cur in list(st.heap.items()):
        old = fr.entry_heap.get(f)
        if old is None or old is cur or z3.eq(old, cur):
            continue
        allowed = c.modifies.get(f, c.modifies.get("*"))
        refs = []
        if allowed is not None:
            if "*" in allowed:
                continue
            for e in allowed:
                refs.append(ex.with_heap(fr.entry_heap, fr.entry_locals, lambda e=e: ex.spec_eval(e, fr), owner=fr).term)
        r = z3.Int("r!frame")
        # every pre-existing index, ghost slots (negative) included; a frame expression that evaluates to None names no object
        cond = z3.And(r < fr.entry_alloc, *[z3.Or(z3.Not(Val.is_VRef(x)), r != RID(x)) for x in refs])
        st.check(f"{ex.prop_id}/{short}/frame:{f}", z3.ForAll([r], z3.Implies(cond, z3.Select(cur, r) == z3.Select(old, r))),
                 "frame", wf)


def run_script(repo: Repo, contracts: dict, prop_id: str, name: str, script, timeout_ms=None, max_paths=2000,
               module="openpectus", spec_funcs=None) -> FunctionReport:
    """Lemma over several calls of real functions: `script(ctx)` is executed once per path (decision replay); it calls
    repo functions through ctx.call(...) and emits obligations with ctx.check(...)."""
    from .api import Ctx
    rep = FunctionReport(f"lemma:{name}")
    t0 = time.time()
    ex = Executor(repo, contracts, prop_id)
    ex.top_qualname = None
    ex.spec_funcs = spec_funcs or {}
    ex.bounded_used = False
    work = [[]]
    mi = repo.module(module) or next(iter(repo.modules.values()))
    try:
        while work:
            prefix = work.pop()
            rep.paths += 1
            if rep.paths > max_paths:
                rep.status, rep.reason = "not-verifiable", "path budget exceeded"
                break
            st = State(prefix, timeout_ms)
            ex.st = st
            ex._depth, ex._stack = 0, []
            fr = Frame(None, mi, None)
            fr.entry_heap, fr.entry_alloc = st.snapshot()
            fr.entry_locals = {}
            fi = FuncInfo(name, f"lemma:{name}", mi, None, ast.parse("def _l(): pass").body[0])
            fr.func = fi
            try:
                script(Ctx(ex, fr, name, None))
                rep.exits_normal += 1
                if st.reachable():
                    rep.feasible_exits += 1
            except PathEnd:
                pass
            except PyRaise as e:
                rep.exits_exceptional += 1
                st.obligations.append(Obligation(f"{prop_id}/{name}/no-raise:{e.cls}", "exception-freedom", "failed",
                                                 "executor", 0.0, st.path_sig(), f"{e.cls} escapes the lemma script ({e.note})"))
            rep.obligations.extend(st.obligations)
            rep.solver_seconds += st.solver_time
            work.extend(st.pending)
    except Unsupported as e:
        rep.status, rep.reason = "not-verifiable", f"outside subset: {e}"
    except Exception as e:
        rep.status, rep.reason = "crashed", f"{type(e).__name__}: {e}\n{traceback.format_exc()[-1500:]}"
    rep.dropped, rep.assumptions = sorted(ex.dropped), sorted(ex.assumptions)
    rep.inlined, rep.used_contracts = sorted(ex.inlined), sorted(ex.used_contracts)
    rep.seconds = time.time() - t0
    return rep
