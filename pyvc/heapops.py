"""Encodings of Python containers on the symbolic heap.

list/tuple : ref r with  $len[r], $items[r]  — element k is $items[r][k]
dict/set   : ref r with  $dhas[r] (Val->Bool), $dval[r] (Val->Val), $dcnt[r], $dord[r] (Int->Val), $dpos[r] (Val->Int)
             well-formedness (assumed lazily where order / size is used, maintained by every operation):
               cnt>=0 ; forall 0<=i<cnt: has[ord[i]] and pos[ord[i]]==i ; forall k: has[k] => 0<=pos[k]<cnt and ord[pos[k]]==k
"""
from __future__ import annotations

import z3

from .repo import Ty
from .smt import IV, RV, BV, SVs, RID, Val, INT, ARR_IV, ARR_VB, ARR_VV, ARR_VI, mk_int, mk_ref, NONE
from .state import SV, State


def rid(sv_or_term):
    t = sv_or_term.term if isinstance(sv_or_term, SV) else sv_or_term
    return RID(t)


# ------------------------------------------------------------------------------------------------ lists
def list_len(st: State, r):
    return st.read("$len", r)


def list_get(st: State, r, k):
    return z3.Select(st.read("$items", r), k)


def list_new(st: State, elems=None, length=None, ty=None) -> SV:
    r = st.new_ref()
    if elems is not None:
        arr = z3.K(INT, NONE)
        for k, e in enumerate(elems):
            arr = z3.Store(arr, k, e)
        st.write("$items", r, arr)
        st.write("$len", r, z3.IntVal(len(elems)))
    else:
        arr = st.fresh("arr", ARR_IV)
        st.write("$items", r, arr)
        st.write("$len", r, length)
    return SV(mk_ref(r), ty or Ty("list"))


def list_append(st: State, r, v):
    n = list_len(st, r)
    st.write("$items", r, z3.Store(st.read("$items", r), n, v))
    st.write("$len", r, n + 1)


def list_set(st: State, r, k, v):
    st.write("$items", r, z3.Store(st.read("$items", r), k, v))


def _shifted(st: State, old, off):
    """fresh array a with a[j] == old[j + off] for all j"""
    new = st.fresh("shift", ARR_IV)
    if type(st).qf_mode:
        # bounded, quantifier-free runs: the shift is stated for the first indices only (lists are short there)
        for k in range(8):
            st.assume(z3.Select(new, k) == z3.Select(old, z3.IntVal(k) + off))
        return new
    j = z3.Int(st.fresh_name("sj"))
    st.assume(z3.ForAll([j], z3.Select(new, j) == z3.Select(old, j + off), patterns=[z3.Select(new, j)]))
    return new


def list_pop_front(st: State, r):
    v = list_get(st, r, z3.IntVal(0))
    st.write("$items", r, _shifted(st, st.read("$items", r), 1))
    st.write("$len", r, list_len(st, r) - 1)
    return v


def list_pop_back(st: State, r):
    n = list_len(st, r)
    v = list_get(st, r, n - 1)
    st.write("$len", r, n - 1)
    return v


def list_insert_front(st: State, r, v):
    st.write("$items", r, z3.Store(_shifted(st, st.read("$items", r), -1), 0, v))
    st.write("$len", r, list_len(st, r) + 1)


def list_clear(st: State, r):
    st.write("$len", r, z3.IntVal(0))


def list_contains(st: State, r, v, eq):
    j = z3.Int(st.fresh_name("j"))
    return z3.Exists([j], z3.And(0 <= j, j < list_len(st, r), eq(list_get(st, r, j), v)))


def list_copy(st: State, r, ty=None, lo_off=None, new_len=None) -> SV:
    """fresh list with the same elements (optionally a slice starting at offset lo_off with new_len elements)"""
    n = st.new_ref()
    items = st.read("$items", r)
    if lo_off is not None and not (z3.is_int_value(z3.simplify(lo_off)) and z3.simplify(lo_off).as_long() == 0):
        items = _shifted(st, items, lo_off)
    st.write("$items", n, items)
    st.write("$len", n, new_len if new_len is not None else list_len(st, r))
    return SV(mk_ref(n), ty or Ty("list"))


# ------------------------------------------------------------------------------------------------ dicts
def dict_new(st: State, ty=None) -> SV:
    r = st.new_ref()
    st.write("$dhas", r, z3.K(Val, z3.BoolVal(False)))
    st.write("$dval", r, z3.K(Val, NONE))
    st.write("$dcnt", r, z3.IntVal(0))
    st.write("$dord", r, z3.K(INT, NONE))
    st.write("$dpos", r, z3.K(Val, z3.IntVal(-1)))
    return SV(mk_ref(r), ty or Ty("dict"))


def dict_has(st: State, r, k):
    return z3.Select(st.read("$dhas", r), k)


def dict_get(st: State, r, k):
    return z3.Select(st.read("$dval", r), k)


def dict_wf(st: State, r):
    has, cnt, ord_, pos = st.read("$dhas", r), st.read("$dcnt", r), st.read("$dord", r), st.read("$dpos", r)
    i = z3.Int("wf!i")
    k = z3.Const("wf!k", Val)
    return z3.And(
        cnt >= 0,
        z3.Implies(cnt == 0, z3.ForAll([k], z3.Not(z3.Select(has, k)))),          # (consequences of the two clauses below,
        z3.Implies(cnt > 0, z3.Select(has, z3.Select(ord_, 0))),                   #  stated to help instantiation)
        z3.ForAll([i], z3.Implies(z3.And(0 <= i, i < cnt),
                                  z3.And(z3.Select(has, z3.Select(ord_, i)), z3.Select(pos, z3.Select(ord_, i)) == i))),
        z3.ForAll([k], z3.Implies(z3.Select(has, k),
                                  z3.And(0 <= z3.Select(pos, k), z3.Select(pos, k) < cnt,
                                         z3.Select(ord_, z3.Select(pos, k)) == k))))


def dict_set(st: State, r, k, v):
    """d[k] = v  (path-free: uses If on membership)"""
    has, cnt, ord_, pos = st.read("$dhas", r), st.read("$dcnt", r), st.read("$dord", r), st.read("$dpos", r)
    present = z3.Select(has, k)
    st.write("$dval", r, z3.Store(st.read("$dval", r), k, v))
    st.write("$dhas", r, z3.Store(has, k, z3.BoolVal(True)))
    st.write("$dord", r, z3.If(present, ord_, z3.Store(ord_, cnt, k)))
    st.write("$dpos", r, z3.If(present, pos, z3.Store(pos, k, cnt)))
    st.write("$dcnt", r, z3.If(present, cnt, cnt + 1))


def dict_del(st: State, r, k):
    """del d[k] for a present key: order of the remaining keys is preserved (stated via fresh ord/pos)."""
    has, cnt, pos = st.read("$dhas", r), st.read("$dcnt", r), st.read("$dpos", r)
    new_has = z3.Store(has, k, z3.BoolVal(False))
    st.write("$dhas", r, new_has)
    st.write("$dcnt", r, cnt - 1)
    nord = st.fresh("dord", ARR_IV)
    npos = st.fresh("dpos", ARR_VI)
    st.write("$dord", r, nord)
    st.write("$dpos", r, npos)
    st.assume(dict_wf(st, r))
    a = z3.Const(st.fresh_name("ka"), Val)
    st.assume(z3.ForAll([a], z3.Implies(z3.Select(new_has, a),
                                        z3.Select(npos, a) == z3.If(z3.Select(pos, a) > z3.Select(pos, k),
                                                                    z3.Select(pos, a) - 1, z3.Select(pos, a)))))


def dict_clear(st: State, r):
    st.write("$dhas", r, z3.K(Val, z3.BoolVal(False)))
    st.write("$dcnt", r, z3.IntVal(0))


def dict_keys_list(st: State, r, ty=None) -> SV:
    """snapshot list of keys in iteration order"""
    st.assume(dict_wf(st, r))
    n = st.new_ref()
    st.write("$items", n, st.read("$dord", r))
    st.write("$len", n, st.read("$dcnt", r))
    return SV(mk_ref(n), ty or Ty("list"))
