"""Source index over the repository under verification.

Every run re-reads the *.py files below $VERIF_REPO (default /repo); nothing is cached on disk.
The index gives the executor: module import tables, classes (bases, methods, properties, class
attributes, field annotations) and functions as `ast` nodes of the REAL source, with a SHA-256 of
each function's source segment (reported in the evidence).
"""
from __future__ import annotations

import ast
import hashlib
import os
from dataclasses import dataclass, field

REPO_ROOT = os.environ.get("VERIF_REPO", "/repo")


# --------------------------------------------------------------------------------------------- types
@dataclass(frozen=True)
class Ty:
    """Static type descriptor. name: int float bool str none list dict set tuple callable any | class name."""
    name: str
    args: tuple = ()
    nullable: bool = False

    def elt(self, k=0):
        if len(self.args) > k:
            return self.args[k]
        return None

    def with_nullable(self, n=True):
        return Ty(self.name, self.args, n)

    def __str__(self):
        s = self.name
        if self.args:
            s += "[" + ",".join(str(a) for a in self.args) + "]"
        return s + ("?" if self.nullable else "")


_PRIM = {"NonNegativeInt": "int", "PositiveInt": "int",   # pydantic constrained ints: ints (range constraint not assumed)
         "int": "int", "float": "float", "bool": "bool", "str": "str", "None": "none", "NoneType": "none",
         "list": "list", "List": "list", "dict": "dict", "Dict": "dict", "set": "set", "Set": "set",
         "tuple": "tuple", "Tuple": "tuple", "Sequence": "list", "Iterable": "list", "Any": "any",
         "Callable": "callable", "object": "any", "Decimal": "float", "Mapping": "dict", "MutableMapping": "dict",
         "Iterator": "list", "Generator": "generator", "Collection": "list", "frozenset": "set",
         "defaultdict": "dict", "OrderedDict": "dict", "bytes": "str", "Literal": "str", "Type": "any",
         "type": "any", "Self": "self"}


def parse_ann(node) -> Ty | None:
    """annotation AST (or source string) -> Ty, or None when it says nothing usable."""
    if node is None:
        return None
    if isinstance(node, str):
        try:
            node = ast.parse(node, mode="eval").body
        except SyntaxError:
            return None
    if isinstance(node, ast.Constant):
        if node.value is None:
            return Ty("none")
        if isinstance(node.value, str):
            return parse_ann(node.value)
        return None
    if isinstance(node, ast.Name):
        n = _PRIM.get(node.id, node.id)
        return Ty(n)
    if isinstance(node, ast.Attribute):
        # Mdl.TagValue -> TagValue ; typing.Any -> any
        n = _PRIM.get(node.attr, node.attr)
        return Ty(n)
    if isinstance(node, ast.Subscript):
        base = parse_ann(node.value)
        if base is None:
            return None
        if base.name == "Optional" or (isinstance(node.value, ast.Name) and node.value.id == "Optional"):
            inner = parse_ann(node.slice)
            return inner.with_nullable() if inner else None
        if base.name == "Union":
            elts = node.slice.elts if isinstance(node.slice, ast.Tuple) else [node.slice]
            return _union([parse_ann(e) for e in elts])
        if base.name in ("Annotated", "Final", "ClassVar", "Mapped", "Required", "NotRequired", "ReadOnly"):
            elts = node.slice.elts if isinstance(node.slice, ast.Tuple) else [node.slice]
            return parse_ann(elts[0])
        if base.name == "str":  # Literal[...] mapped to str
            return Ty("str")
        elts = node.slice.elts if isinstance(node.slice, ast.Tuple) else [node.slice]
        args = tuple(parse_ann(e) or Ty("any") for e in elts)
        if base.name == "tuple" and len(elts) == 2 and isinstance(elts[1], ast.Constant) and elts[1].value is Ellipsis:
            return Ty("list", (args[0],))
        return Ty(base.name, args)
    if isinstance(node, ast.BinOp) and isinstance(node.op, ast.BitOr):
        return _union([parse_ann(node.left), parse_ann(node.right)])
    return None


def _union(ts):
    non = [t for t in ts if t is not None and t.name != "none"]
    has_none = any(t is not None and t.name == "none" for t in ts)
    if any(t is None for t in ts):
        return None
    if len(non) == 0:
        return Ty("none")
    names = {t.name for t in non}
    if len(names) == 1:
        return non[0].with_nullable(has_none or non[0].nullable)
    if names <= {"int", "float"}:
        return Ty("num", (), has_none)
    return Ty("any", (), has_none)


# ------------------------------------------------------------------------------------------- entities
@dataclass
class FuncInfo:
    name: str
    qualname: str            # module:Class.method or module:func
    module: "ModuleInfo"
    cls: "ClassInfo | None"
    node: ast.FunctionDef | ast.AsyncFunctionDef
    is_property: bool = False
    is_static: bool = False
    is_classmethod: bool = False
    is_async: bool = False
    other_decorators: list = field(default_factory=list)

    @property
    def source(self) -> str:
        return ast.get_source_segment(self.module.source, self.node) or ""

    @property
    def sha256(self) -> str:
        return hashlib.sha256(self.source.encode()).hexdigest()

    @property
    def is_generator(self) -> bool:
        for n in _walk_same_scope(self.node):
            if isinstance(n, (ast.Yield, ast.YieldFrom)):
                return True
        return False


def _walk_same_scope(fn):
    todo = list(fn.body)
    while todo:
        n = todo.pop()
        yield n
        for c in ast.iter_child_nodes(n):
            if isinstance(c, (ast.FunctionDef, ast.AsyncFunctionDef, ast.Lambda, ast.ClassDef)):
                continue
            todo.append(c)


@dataclass
class ClassInfo:
    name: str
    module: "ModuleInfo"
    node: ast.ClassDef
    base_names: list
    methods: dict = field(default_factory=dict)        # name -> FuncInfo (own)
    annotations: dict = field(default_factory=dict)    # own field name -> Ty
    class_attrs: dict = field(default_factory=dict)    # name -> ast expr (own, class level assignments)
    field_order: list = field(default_factory=list)    # annotated fields in order (pydantic/dataclass)
    is_dataclass: bool = False
    cid: int = 0

    def mro(self, repo: "Repo") -> list["ClassInfo"]:
        if getattr(self, "_mro", None) is not None:
            return self._mro
        out, seen = [], set()

        def rec(c):
            if c.name in seen:
                return
            seen.add(c.name)
            out.append(c)
            for b in c.base_names:
                bc = repo.resolve_class(b, c.module)
                if bc is not None:
                    rec(bc)
        rec(self)
        self._mro = out
        return out

    def all_base_names(self, repo) -> set:
        if getattr(self, "_abn", None) is not None:
            return self._abn
        names = set()
        for c in self.mro(repo):
            names.add(c.name)
            for b in c.base_names:
                names.add(b.split(".")[-1])
        self._abn = names
        return names

    def is_pydantic(self, repo) -> bool:
        return "BaseModel" in self.all_base_names(repo)

    def is_enum(self, repo) -> bool:
        return bool({"Enum", "StrEnum", "IntEnum", "Flag", "IntFlag"} & self.all_base_names(repo))

    def is_strenum(self, repo) -> bool:
        return "StrEnum" in self.all_base_names(repo)

    def is_flag(self, repo) -> bool:
        return bool({"Flag", "IntFlag"} & self.all_base_names(repo))

    def find_method(self, repo, name) -> FuncInfo | None:
        for c in self.mro(repo):
            if name in c.methods:
                return c.methods[name]
        return None

    def find_class_attr(self, repo, name):
        for c in self.mro(repo):
            if name in c.class_attrs:
                return c, c.class_attrs[name]
        return None

    def field_type(self, repo, name) -> Ty | None:
        for c in self.mro(repo):
            if name in c.annotations:
                return c.annotations[name]
        return None

    def is_subclass_of(self, repo, other_name: str) -> bool:
        return other_name in self.all_base_names(repo)


@dataclass
class ModuleInfo:
    name: str
    path: str
    source: str
    tree: ast.Module
    imports: dict = field(default_factory=dict)     # local name -> dotted target ("pkg.mod" or "pkg.mod.attr")
    functions: dict = field(default_factory=dict)   # name -> FuncInfo
    classes: dict = field(default_factory=dict)     # name -> ClassInfo
    constants: dict = field(default_factory=dict)   # name -> ast expr (module level simple assignment)


class Repo:
    def __init__(self, root: str | None = None):
        self.root = root or REPO_ROOT
        self.modules: dict[str, ModuleInfo] = {}
        self._class_by_name: dict[str, list[ClassInfo]] = {}
        self._next_cid = 100
        self._all_loaded = False

    # ---------------------------------------------------------------------------------- loading
    def module_path(self, modname: str) -> str | None:
        p = os.path.join(self.root, *modname.split("."))
        if os.path.isfile(p + ".py"):
            return p + ".py"
        if os.path.isfile(os.path.join(p, "__init__.py")):
            return os.path.join(p, "__init__.py")
        return None

    def module(self, modname: str) -> ModuleInfo | None:
        if modname in self.modules:
            return self.modules[modname]
        path = self.module_path(modname)
        if path is None:
            return None
        with open(path, encoding="utf-8") as f:
            src = f.read()
        tree = ast.parse(src, filename=path)
        mi = ModuleInfo(modname, path, src, tree)
        self.modules[modname] = mi
        self._index_module(mi)
        return mi

    def load_all(self, package="openpectus"):
        if self._all_loaded:
            return
        base = os.path.join(self.root, package)
        for dirpath, dirnames, filenames in os.walk(base):
            dirnames[:] = [d for d in dirnames if d not in ("__pycache__", "test", "frontend", "node_modules")]
            for fn in filenames:
                if fn.endswith(".py"):
                    rel = os.path.relpath(os.path.join(dirpath, fn), self.root)[:-3]
                    mod = rel.replace(os.sep, ".")
                    if mod.endswith(".__init__"):
                        mod = mod[:-9]
                    try:
                        self.module(mod)
                    except SyntaxError:
                        pass
        self._all_loaded = True

    def _index_module(self, mi: ModuleInfo):
        pkg = mi.name.rsplit(".", 1)[0] if "." in mi.name else ""
        for node in mi.tree.body:
            self._index_stmt(mi, node, pkg)

    def _index_stmt(self, mi, node, pkg):
        if isinstance(node, ast.Import):
            for a in node.names:
                mi.imports[a.asname or a.name.split(".")[0]] = a.name if a.asname else a.name.split(".")[0]
        elif isinstance(node, ast.ImportFrom):
            base = node.module or ""
            if node.level:
                parts = mi.name.split(".")
                base = ".".join(parts[:len(parts) - node.level] + ([node.module] if node.module else []))
            for a in node.names:
                mi.imports[a.asname or a.name] = base + "." + a.name
        elif isinstance(node, (ast.FunctionDef, ast.AsyncFunctionDef)):
            mi.functions[node.name] = self._mk_func(mi, None, node)
        elif isinstance(node, ast.ClassDef):
            self._index_class(mi, node)
        elif isinstance(node, ast.Assign):
            for t in node.targets:
                if isinstance(t, ast.Name) and not (isinstance(node.value, ast.Name) and node.value.id == t.id):
                    mi.constants[t.id] = node.value      # (`X = X` re-exports an imported name: keep the import)
        elif isinstance(node, ast.AnnAssign):
            if isinstance(node.target, ast.Name) and node.value is not None:
                mi.constants[node.target.id] = node.value
        elif isinstance(node, (ast.If, ast.Try)):
            for sub in getattr(node, "body", []):
                self._index_stmt(mi, sub, pkg)

    def _mk_func(self, mi, cls, node) -> FuncInfo:
        fi = FuncInfo(node.name, f"{mi.name}:{cls.name + '.' if cls else ''}{node.name}", mi, cls, node,
                      is_async=isinstance(node, ast.AsyncFunctionDef))
        for d in node.decorator_list:
            dn = ast.unparse(d)
            if dn == "property" or dn.endswith(".getter") or dn == "cached_property" or dn == "functools.cached_property":
                fi.is_property = True
            elif dn == "staticmethod":
                fi.is_static = True
            elif dn == "classmethod":
                fi.is_classmethod = True
            elif dn in ("override", "final", "abstractmethod", "typing.override", "abc.abstractmethod"):
                pass
            elif dn.endswith(".setter"):
                fi.other_decorators.append("setter")
            else:
                fi.other_decorators.append(dn)
        return fi

    def _index_class(self, mi, node: ast.ClassDef):
        ci = ClassInfo(node.name, mi, node, [ast.unparse(b) for b in node.bases])
        ci.cid = self._next_cid
        self._next_cid += 1
        for d in node.decorator_list:
            if "dataclass" in ast.unparse(d):
                ci.is_dataclass = True
        for st in node.body:
            if isinstance(st, (ast.FunctionDef, ast.AsyncFunctionDef)):
                fi = self._mk_func(mi, ci, st)
                if "setter" in fi.other_decorators:
                    ci.methods["$set_" + st.name] = fi
                    continue
                ci.methods[st.name] = fi
            elif isinstance(st, ast.AnnAssign) and isinstance(st.target, ast.Name):
                t = parse_ann(st.annotation)
                if t is not None:
                    ci.annotations[st.target.id] = t
                ci.field_order.append(st.target.id)
                if st.value is not None:
                    ci.class_attrs[st.target.id] = st.value
            elif isinstance(st, ast.Assign):
                for t in st.targets:
                    if isinstance(t, ast.Name):
                        ci.class_attrs[t.id] = st.value
            elif isinstance(st, ast.ClassDef):
                self._index_class(mi, st)      # nested class (e.g. BlockTimeTag.StackItem), addressable by its simple name
        # instance field annotations / inferred types from `self.x[: T] = ...` in methods
        for fi in ci.methods.values():
            for n in ast.walk(fi.node):
                if isinstance(n, ast.AnnAssign) and isinstance(n.target, ast.Attribute) \
                        and isinstance(n.target.value, ast.Name) and n.target.value.id == "self":
                    t = parse_ann(n.annotation)
                    if t is not None and n.target.attr not in ci.annotations:
                        ci.annotations[n.target.attr] = t
        mi.classes[node.name] = ci
        self._class_by_name.setdefault(node.name, []).append(ci)

    # -------------------------------------------------------------------------------- resolution
    def resolve_dotted(self, dotted: str):
        """dotted path -> ('module', ModuleInfo) | ('class', ClassInfo) | ('func', FuncInfo) | ('const', (mi, expr))
        | ('external', dotted)"""
        if not dotted.startswith("openpectus"):
            return ("external", dotted)
        mi = self.module(dotted)
        if mi is not None:
            return ("module", mi)
        if "." in dotted:
            modname, attr = dotted.rsplit(".", 1)
            mi = self.module(modname)
            if mi is not None:
                return self.resolve_in_module(mi, attr)
        return ("external", dotted)

    def resolve_in_module(self, mi: ModuleInfo, name: str):
        if name in mi.classes:
            return ("class", mi.classes[name])
        if name in mi.functions:
            return ("func", mi.functions[name])
        if name in mi.constants:
            return ("const", (mi, mi.constants[name]))
        if name in mi.imports:
            return self.resolve_dotted(mi.imports[name])
        return ("external", mi.name + "." + name)

    def resolve_class(self, name: str, ctx_module: ModuleInfo | None = None) -> ClassInfo | None:
        """Class by (possibly dotted) name as written in `ctx_module`, falling back to a unique simple name."""
        simple = name.split(".")[-1]
        if ctx_module is not None:
            head = name.split(".")[0]
            if "." not in name:
                kind, obj = self.resolve_in_module(ctx_module, name)
                if kind == "class":
                    return obj
            elif head in ctx_module.imports:
                kind, obj = self.resolve_dotted(ctx_module.imports[head] + "." + ".".join(name.split(".")[1:]))
                if kind == "class":
                    return obj
        cands = self._class_by_name.get(simple, [])
        if len(cands) == 1:
            return cands[0]
        if len(cands) > 1 and ctx_module is not None:
            # prefer same package
            pk = ctx_module.name.split(".")[:2]
            same = [c for c in cands if c.module.name.split(".")[:2] == pk]
            if len(same) == 1:
                return same[0]
        if not cands and not self._all_loaded:
            self.load_all()
            return self.resolve_class(name, ctx_module)
        return cands[0] if cands else None

    def alias_type(self, name: str):
        """`Name = <annotation expr>` at module level (type alias) -> Ty, else None"""
        cache = self.__dict__.setdefault("_alias_cache", {})
        if name in cache:
            return cache[name]
        self.load_all()
        res = None
        for mi in self.modules.values():
            expr = mi.constants.get(name)
            if expr is not None and not isinstance(expr, ast.Call):
                t = parse_ann(expr)
                if t is not None and t.name != name:
                    res = t
                    break
        cache[name] = res
        return res

    def subclasses(self, ci: ClassInfo) -> list[ClassInfo]:
        self.load_all()
        out = []
        for lst in self._class_by_name.values():
            for c in lst:
                if c is ci or ci.name in c.all_base_names(self):
                    out.append(c)
        return out

    def func(self, qualname: str) -> FuncInfo:
        modname, rest = qualname.split(":")
        mi = self.module(modname)
        if mi is None:
            raise KeyError(f"module {modname} not found under {self.root}")
        if "." in rest:
            cname, fname = rest.split(".", 1)
            ci = mi.classes.get(cname)
            if ci is None:
                raise KeyError(f"class {cname} not found in {modname}")
            # nested function inside method: Class.method.inner
            if "." in fname:
                outer, inner = fname.split(".", 1)
                fo = ci.methods[outer]
                for n in ast.walk(fo.node):
                    if isinstance(n, (ast.FunctionDef, ast.AsyncFunctionDef)) and n.name == inner:
                        return self._mk_func(mi, ci, n)
                raise KeyError(qualname)
            fi = ci.methods.get(fname)
            if fi is None:
                raise KeyError(f"{qualname}: method not found")
            return fi
        fi = mi.functions.get(rest)
        if fi is None:
            raise KeyError(f"{qualname}: function not found")
        return fi
