"""Executor mixin: attribute access, subscripts, calls (contract / inline / external), constructors."""
from __future__ import annotations

import ast

import z3

from .repo import Ty, parse_ann, ClassInfo, FuncInfo
from .smt import IV, RV, BV, SVs, RID, Val, INT, NONE, TRUE, mk_int, mk_real, mk_bool, mk_str, mk_ref, num, is_numeric, simplify_bool
from .state import SV, Unsupported, PyRaise, PathEnd, ReturnEx
from .executor import Frame, LOGGER_NAMES, BUILTIN_EXC
from . import heapops as H

CONTAINER = ("list", "tuple", "dict", "set", "str")
MAX_INLINE_DEPTH = 8


class AccessMixin:
    # -------------------------------------------------------------------------------------- attributes
    def ev_Attribute(self, node, fr):
        base = self.ev(node.value, fr)
        return self.getattr(base, node.attr, fr, node)

    def getattr(self, base: SV, attr: str, fr: Frame, node=None) -> SV:
        m = base.meta
        if base.term is None and m is not None:
            kind = m[0]
            if kind == "module":
                k2, obj = self.repo.resolve_in_module(m[1], attr)
                if k2 == "class":
                    return SV(None, Ty("class"), ("class", obj))
                if k2 == "func":
                    return SV(None, Ty("callable"), ("func", obj))
                if k2 == "module":
                    return SV(None, Ty("module"), ("module", obj))
                if k2 == "const":
                    return self.ev(obj[1], Frame(None, obj[0]))
                return SV(None, Ty("ext"), ("ext", obj))
            if kind == "class":
                ci: ClassInfo = m[1]
                if ci.is_enum(self.repo):
                    mem = self.enum_member(ci, attr)
                    if mem is not None:
                        return mem
                fi = ci.find_method(self.repo, attr)
                if fi is not None:
                    return SV(None, Ty("callable"), ("func", fi))
                ca = ci.find_class_attr(self.repo, attr)
                if ca is not None:
                    return self.ev(ca[1], Frame(None, ca[0].module))
                if attr == "__name__":
                    return SV(mk_str(ci.name), Ty("str"))
                if getattr(self, "lenient", False):
                    # attribute attached to the class elsewhere (e.g. `ArgSpec.NoArgsInstance = ...`): one opaque constant per name
                    self.assumptions.add("LENIENT: class attributes assigned outside the class body are opaque constants")
                    return SV(z3.Const(f"clsattr!{ci.name}.{attr}", Val), None)
                raise Unsupported(f"class attribute {ci.name}.{attr}")
            if kind == "ext":
                return SV(None, Ty("ext"), ("ext", m[1] + "." + attr))
            if kind == "super":
                _, ci, selfsv = m
                mro = selfsv_cls_mro = self.cls_of(selfsv.ty, fr).mro(self.repo) if self.cls_of(selfsv.ty, fr) else ci.mro(self.repo)
                names = [c.name for c in mro]
                start = names.index(ci.name) + 1 if ci.name in names else 1
                for c in mro[start:]:
                    if attr in c.methods:
                        return SV(None, Ty("callable"), ("bound", c.methods[attr], selfsv))
                return SV(None, Ty("callable"), ("extbound", selfsv, "super." + attr))
            raise Unsupported(f"attribute {attr} on {kind}")
        tn = base.ty.name if base.ty else None
        if base.meta and base.meta[0] == "tuple" and attr in ("count", "index"):
            return SV(None, Ty("callable"), ("extbound", base, attr))
        if tn in CONTAINER:
            return SV(None, Ty("callable"), ("extbound", base, attr))
        ci = self.cls_of(base.ty, fr)
        if ci is None:
            hint = fr.hint(attr) if fr else None
            if tn in (None, "any") and attr in ("append", "extend", "items", "keys", "values", "get", "pop", "clear",
                                                "sort", "insert", "remove", "update", "copy", "strip", "split",
                                                "startswith", "endswith", "lower", "upper", "format", "join",
                                                "setdefault", "add", "discard", "index", "count", "replace"):
                return SV(None, Ty("callable"), ("extbound", base, attr))
            if tn in ("int", "float", "bool", "num", "none"):
                if tn == "none":
                    raise PyRaise("AttributeError", None, f"None.{attr}")
                raise Unsupported(f"attribute {attr} on {tn}")
            # unknown receiver type: plain field read
            return self.read_field(base, attr, hint, fr)
        if base.ty.nullable:
            self.raise_if(Val.is_VNone(base.term), "AttributeError", f"None.{attr}")
        if ci.is_enum(self.repo):
            if attr == "value":
                if ci.is_strenum(self.repo) or ci.is_flag(self.repo):
                    return SV(base.term, Ty("str" if ci.is_strenum(self.repo) else "int"))
                return SV(self.uf("enum_value", base.term), None)
            if attr == "name":
                return SV(mk_str(self.uf_s("enum_name", base.term)), Ty("str"))
        fi = ci.find_method(self.repo, attr)
        if fi is not None:
            if fi.is_property:
                top = getattr(self, "top_contract", None)
                ph = top.options.get("property_handlers", {}).get(f"{ci.name}.{attr}") if top is not None else None
                if ph is None and top is not None:
                    for c2 in ci.mro(self.repo):
                        ph = top.options.get("property_handlers", {}).get(f"{c2.name}.{attr}")
                        if ph is not None:
                            break
                if ph is not None:
                    # assumed contract of a property the executor cannot follow (e.g. a generator property)
                    from .api import Ctx
                    self.assumptions.add(f"assumed contract on property `{ci.name}.{attr}`" + (f": {ph.__doc__.strip().splitlines()[0]}" if ph.__doc__ else ""))
                    return ph(Ctx(self, fr, attr, node), base)
                return self.call_function(fi, [], {}, fr, base, node)
            if fi.is_static:
                return SV(None, Ty("callable"), ("func", fi))
            return SV(None, Ty("callable"), ("bound", fi, base))
        if attr == "__class__":
            return SV(None, Ty("class"), ("class", ci))
        fty = ci.field_type(self.repo, attr) or fr.hint(f"{ci.name}.{attr}")
        if fty is None:
            ca = ci.find_class_attr(self.repo, attr)
            if ca is not None:
                # class-level default; instances may override -> heap read typed by the default's static type
                try:
                    self.pure += 1
                    dv = self.ev(ca[1], Frame(None, ca[0].module))
                    fty = dv.ty
                except Unsupported:
                    fty = None
                finally:
                    self.pure -= 1
        return self.read_field(base, attr, fty, fr)

    def uf(self, name, *args):
        f = z3.Function(name, *([a.sort() for a in args] + [Val]))
        return f(*args)

    def uf_s(self, name, *args):
        f = z3.Function(name, *([a.sort() for a in args] + [z3.StringSort()]))
        return f(*args)

    def read_field(self, base: SV, attr: str, fty, fr) -> SV:
        prot = getattr(self, "protect", None)
        if prot and base.ty is not None and base.ty.name in prot and attr not in prot[base.ty.name] and not self.pure:
            self.protect_hook(self, base, attr, fr)
        t = self.st.read(attr, RID(base.term))
        if fty is not None and fty.name == "self":
            fty = base.ty
        fty = self.norm_ty(fty)
        self.assume_type(t, fty, fr)
        if self.qdepth and fty is not None and fty.name not in ("any",):
            # under a quantifier the receiver is a bound variable: state the field's type invariant for ALL instances
            ci = self.cls_of(base.ty, fr)
            if ci is not None:
                r = z3.Int("ty!r")
                subs = self.repo.subclasses(ci)
                if 0 < len(subs) <= 16:
                    sel = z3.Select(self.st.field(attr), r)
                    q, self.qdepth = self.qdepth, 0
                    try:
                        tp = self.type_pred(sel, Ty(fty.name, (), fty.nullable), fr, 1)
                    finally:
                        self.qdepth = q
                    if not z3.is_true(tp):
                        guard = z3.And(r >= 0, z3.Or([self.st.read("$type", r) == c.cid for c in subs]))
                        from .executor import _forall_pat
                        self.st.assume(_forall_pat([r], z3.Implies(guard, tp), sel))     # `sel` may contain an ite after a conditional store
        if fty is None:
            # refs stored in the heap are allocated
            self.st.assume(z3.Implies(Val.is_VRef(t), RID(t) < self.st.alloc))
        return SV(t, fty)

    def write_field(self, base: SV, attr: str, value: SV, fr):
        ci = self.cls_of(base.ty, fr)
        if ci is not None:
            setter = ci.find_method(self.repo, "$set_" + attr)
            if setter is not None:
                self.call_function(setter, [value], {}, fr, base, None)
                return
            if base.ty.nullable:
                self.raise_if(Val.is_VNone(base.term), "AttributeError", f"None.{attr}=")
        self.st.write(attr, RID(base.term), self.need_term(value))

    # -------------------------------------------------------------------------------------- subscripts
    def ev_Subscript(self, node, fr):
        top0 = getattr(self, "top_contract", None)
        sh = top0.options.get("subscript_handlers") if top0 is not None else None
        if sh:
            h = sh.get(ast.unparse(node))
            if h is not None:
                # assumed contract of `obj[key]` on a repository class with its own __getitem__ (keyed by the expression text)
                from .api import Ctx
                self.assumptions.add(f"assumed contract on `{ast.unparse(node)}`" + (f": {h.__doc__.strip().splitlines()[0]}" if h.__doc__ else ""))
                return h(Ctx(self, fr, ast.unparse(node), node), node)
        base = self.ev(node.value, fr)
        tn = base.ty.name if base.ty else None
        st = self.st
        if base.term is None:
            if base.meta and base.meta[0] == "class":
                return base   # generic alias
            raise Unsupported(f"subscript on {base.meta}")
        if isinstance(node.slice, ast.Slice):
            return self.ev_slice(base, node.slice, fr, node)
        idx = self.ev(node.slice, fr)
        if tn == "zarray":
            # ghost z3 array (spec only): domain Int or Val, range Int / Val / Bool
            arr = base.term
            key = IV(idx.term) if arr.sort().domain() == INT else self.need_term(idx)
            v = z3.Select(arr, key)
            rs = arr.sort().range()
            if rs == INT:
                return SV(mk_int(v), Ty("int"))
            if rs == z3.BoolSort():
                return SV(mk_bool(v), Ty("bool"))
            return SV(v, base.ty.elt())
        if base.meta and base.meta[0] == "tuple" and isinstance(node.slice, ast.Constant):
            return base.meta[1][node.slice.value]
        if tn in ("list", "tuple"):
            r = RID(base.term)
            n = H.list_len(st, r)
            i = IV(idx.term)
            if self.pure and not (isinstance(node.slice, ast.UnaryOp) or (isinstance(node.slice, ast.Constant))):
                k = i      # spec texts index with non-negative expressions
            else:
                k = z3.simplify(z3.If(i < 0, n + i, i))
            self.raise_if(z3.Or(k < 0, k >= n), "IndexError", "index:" + ast.unparse(node)[:40])
            ety = base.ty.elt() if tn == "list" else (
                base.ty.args[node.slice.value] if isinstance(node.slice, ast.Constant) and isinstance(node.slice.value, int)
                and node.slice.value < len(base.ty.args) else None)
            v = H.list_get(st, r, k)
            self.assume_type(v, ety, fr)
            return SV(v, ety)
        if tn == "dict":
            r = RID(base.term)
            kt = self.need_term(idx)
            self.raise_if(z3.Not(H.dict_has(st, r, kt)), "KeyError", "key:" + ast.unparse(node)[:40])
            v = H.dict_get(st, r, kt)
            vty = base.ty.elt(1)
            self.assume_type(v, vty, fr)
            return SV(v, vty)
        if tn == "str":
            s = SVs(base.term)
            i = IV(idx.term)
            n = z3.Length(s)
            k = z3.If(i < 0, n + i, i)
            self.raise_if(z3.Or(k < 0, k >= n), "IndexError", "strindex")
            return SV(mk_str(z3.SubString(s, k, 1)), Ty("str"))
        top = getattr(self, "top_contract", None)
        if tn in (None, "any") and top is not None and top.options.get("opaque_subscript"):
            return self.fresh_sv("opaque_item", None)
        raise Unsupported(f"subscript on {base.ty}: {ast.unparse(node)[:60]}")

    def ev_slice(self, base, sl, fr, node):
        st = self.st
        tn = base.ty.name if base.ty else None
        if sl.step is not None:
            raise Unsupported("slice step")
        lo = self.ev(sl.lower, fr) if sl.lower is not None else None
        hi = self.ev(sl.upper, fr) if sl.upper is not None else None
        if tn in ("list", "tuple"):
            r = RID(base.term)
            n = H.list_len(st, r)

            def norm(x, default):
                if x is None:
                    return default
                i = IV(x.term)
                i = z3.If(i < 0, n + i, i)
                return z3.If(i < 0, 0, z3.If(i > n, n, i))
            a, b = norm(lo, z3.IntVal(0)), norm(hi, n)
            ln = z3.If(b > a, b - a, 0)
            return H.list_copy(st, r, ty=base.ty, lo_off=a, new_len=ln)
        if tn == "str":
            s = SVs(base.term)
            n = z3.Length(s)

            def norm(x, default):
                if x is None:
                    return default
                i = IV(x.term)
                i = z3.If(i < 0, n + i, i)
                return z3.If(i < 0, 0, z3.If(i > n, n, i))
            a, b = norm(lo, z3.IntVal(0)), norm(hi, n)
            return SV(mk_str(z3.SubString(s, a, z3.If(b > a, b - a, 0))), Ty("str"))
        raise Unsupported("slice on " + str(base.ty))

    # ------------------------------------------------------------------------------------------- calls
    def is_logger_call(self, node):
        f = node.func
        if isinstance(f, ast.Attribute):
            root = f.value
            while isinstance(root, ast.Attribute):
                root = root.value
            if isinstance(root, ast.Name) and root.id in LOGGER_NAMES:
                return True
            if isinstance(f.value, ast.Attribute) and f.value.attr in ("logger", "_logger", "log"):
                return True
        return False

    def find_call_handler(self, text, fr):
        f = fr
        while f is not None:
            if f.contract is not None and text in f.contract.calls:
                return f.contract.calls[text]
            f = f.parent_env
        top = getattr(self, "top_contract", None)
        if top is not None and text in top.calls:
            return top.calls[text]      # inlined callees run under the assumed contracts of the function being verified
        if top is not None:
            for k, h in top.calls.items():
                if k.endswith("*") and text.startswith(k[:-1]):
                    return h            # prefix handler, e.g. "agg.*"
                if k.startswith("*") and text.endswith(k[1:]) and not text.startswith("self."):
                    return h            # suffix handler, e.g. "*.read_batch" (calls on some other object)
        return None

    def eval_args(self, node, fr):
        args, kwargs = [], {}
        for a in node.args:
            if isinstance(a, ast.Starred):
                sv = self.ev(a.value, fr)
                if sv.meta and sv.meta[0] == "tuple":
                    args.extend(sv.meta[1])
                    continue
                ln = z3.simplify(H.list_len(self.st, H.rid(sv)))
                if z3.is_int_value(ln):
                    for k in range(ln.as_long()):
                        args.append(SV(H.list_get(self.st, H.rid(sv), k), sv.ty.elt() if sv.ty else None))
                    continue
                raise Unsupported("*args of symbolic length")
            args.append(self.ev(a, fr))
        for kw in node.keywords:
            if kw.arg is None:
                raise Unsupported("**kwargs call")
            kwargs[kw.arg] = self.ev(kw.value, fr)
        return args, kwargs

    def ev_Call(self, node, fr):
        if self.is_logger_call(node):
            self.dropped.add("logger call")
            return SV(NONE, Ty("none"))
        text = ast.unparse(node.func)
        h = self.find_call_handler(text, fr)
        if h is not None:
            if getattr(h, "raw", False):
                # raw handler: receives the unevaluated call node (arguments it does not evaluate are not executed)
                from .api import Ctx
                self.assumptions.add(f"assumed contract on `{text}`" + (f": {h.__doc__.strip().splitlines()[0]}" if h.__doc__ else ""))
                r = h(Ctx(self, fr, text, node), node)
                return r if r is not None else SV(NONE, Ty("none"))
            args, kwargs = self.eval_args(node, fr)
            return self.run_handler(h, text, args, kwargs, fr, node)
        if isinstance(node.func, ast.Name) and node.func.id == "super" and not node.args:
            selfsv = fr.lookup("self")
            return SV(None, Ty("super"), ("super", fr.func.cls, selfsv))
        if self.pure and isinstance(node.func, ast.Name):
            r = self.spec_call(node, fr)
            if r is not None:
                return r
        if getattr(self, "lenient", False):
            return self.ev_call_lenient(node, fr, text)
        f = self.ev(node.func, fr)
        args, kwargs = self.eval_args(node, fr)
        return self.call_value(f, args, kwargs, fr, node)

    def ev_call_lenient(self, node, fr, text):
        """Lenient mode (guard-dominance properties): a call the executor cannot follow becomes an opaque value, provided the
        callee's source does not mention a protected accessor prefix (then it must be followed, or the function is reported)."""
        prefixes = self.top_contract.options.get("protected_prefixes", ())
        try:
            f = self.ev(node.func, fr)
        except Unsupported:
            f = None
        try:
            args, kwargs = self.eval_args(node, fr)
        except Unsupported:
            args, kwargs = [], {}
        return self.lenient_apply(f, args, kwargs, fr, node, text)

    def lenient_apply(self, f, args, kwargs, fr, node, text):
        prefixes = self.top_contract.options.get("protected_prefixes", ())
        fi = None
        if f is not None and f.meta is not None:
            if f.meta[0] in ("func", "bound"):
                fi = f.meta[1]
            elif f.meta[0] == "class":
                fi = f.meta[1].find_method(self.repo, "__init__")
        try:
            if f is None or f.meta is None:
                raise Unsupported("opaque callable")
            return self.call_value(f, args, kwargs, fr, node)
        except Unsupported as e:
            src = fi.source if fi is not None else ""
            if any(p in src for p in prefixes):
                raise Unsupported(f"lenient mode cannot skip `{text}`: callee mentions a protected accessor ({e})")
            self.assumptions.add("LENIENT: calls the executor cannot follow (DTO mapping, parsing, formatting, pydantic constructors) "
                                 "are opaque values without effect on authorization")
            prot = getattr(self, "protect", None)
            derived = False
            if prot and not self.pure:
                for a in list(args) + list(kwargs.values()):
                    if a.ty is not None and a.ty.name in prot and a.term is not None:
                        self.protect_hook(self, a, f"<passed to `{text}`>", fr)
                        derived = True
            rty = None
            if f is not None and f.meta is not None and f.meta[0] == "class":
                rty = Ty(f.meta[1].name)
            elif fi is not None and fi.node.returns is not None:
                rty = parse_ann(fi.node.returns)
                if rty is not None and rty.name in ("any", "self"):
                    rty = None
            res = self.fresh_sv("opaque", rty)
            dh = self.top_contract.options.get("protect_derive")
            if derived and dh is not None:
                dh(self, res, fr)       # data derived from an authorized object is authorized
            return res
        except PyRaise as e:
            if e.cls in ("ValidationError", "TypeError") and f is not None and f.meta is not None and f.meta[0] == "class":
                return self.fresh_sv("opaque", Ty(f.meta[1].name))
            raise

    def run_handler(self, h, text, args, kwargs, fr, node):
        from .api import Ctx
        ctx = Ctx(self, fr, text, node)
        r = h(ctx, args, kwargs)
        self.assumptions.add(f"assumed contract on `{text}`" + (f": {h.__doc__.strip().splitlines()[0]}" if h.__doc__ else ""))
        return r if r is not None else SV(NONE, Ty("none"))

    def call_value(self, f: SV, args, kwargs, fr, node) -> SV:
        m = f.meta
        if m is None:
            raise Unsupported(f"call of opaque callable `{ast.unparse(node.func)[:60]}` (no handler in contract.calls)")
        kind = m[0]
        if kind == "class":
            return self.construct(m[1], args, kwargs, fr, node)
        if kind == "func":
            return self.call_function(m[1], args, kwargs, fr, None, node)
        if kind == "bound":
            return self.call_function(m[1], args, kwargs, fr, m[2], node)
        if kind == "lambda":
            return self.call_lambda(m, args, kwargs)
        if kind == "closure":
            return self.call_closure(m, args, kwargs, fr, node)
        if kind == "ext":
            return self.call_external(m[1], args, kwargs, fr, node)
        if kind == "extbound":
            return self.call_method_builtin(m[1], m[2], args, kwargs, fr, node)
        raise Unsupported(f"call kind {kind}")

    def call_lambda(self, m, args, kwargs):
        _, lnode, env, module = m
        nf = Frame(env.func, module, None, parent_env=env)
        params = [a.arg for a in lnode.args.args]
        for p, a in zip(params, args):
            nf.locals[p] = a
        for k, v in kwargs.items():
            nf.locals[k] = v
        return self.ev(lnode.body, nf)

    def call_closure(self, m, args, kwargs, fr, node):
        _, fnode, env, module = m
        fi = FuncInfo(fnode.name, f"{module.name}:<closure>.{fnode.name}", module, None, fnode)
        return self.inline_call(fi, args, kwargs, None, parent_env=env)

    def bind_params(self, fi: FuncInfo, nf: Frame, args, kwargs, selfsv):
        a = fi.node.args
        params = [p.arg for p in a.posonlyargs + a.args]
        anns = {p.arg: p.annotation for p in a.posonlyargs + a.args + a.kwonlyargs}
        args = list(args)
        if selfsv is not None and not fi.is_static:
            args = [selfsv] + args
        if len(args) > len(params) and a.vararg is None:
            raise PyRaise("TypeError", None, "too many positional arguments")
        defaults = dict(zip(params[len(params) - len(a.defaults):], a.defaults))
        for p, d in zip(a.kwonlyargs, a.kw_defaults):
            if d is not None:
                defaults[p.arg] = d
        kw = dict(kwargs)
        for k, p in enumerate(params):
            if k < len(args):
                nf.locals[p] = args[k]
            elif p in kw:
                nf.locals[p] = kw.pop(p)
            elif p in defaults:
                nf.locals[p] = self.ev(defaults[p], Frame(None, fi.module))
            else:
                raise PyRaise("TypeError", None, f"missing argument {p}")
        for p in a.kwonlyargs:
            if p.arg in kw:
                nf.locals[p.arg] = kw.pop(p.arg)
            elif p.arg in defaults:
                nf.locals[p.arg] = self.ev(defaults[p.arg], Frame(None, fi.module))
        if a.vararg is not None:
            extra = args[len(params):]
            sv = H.list_new(self.st, [self.need_term(e) for e in extra], ty=Ty("tuple"))
            sv.meta = ("tuple", extra)
            nf.locals[a.vararg.arg] = sv
        if a.kwarg is not None:
            d = H.dict_new(self.st)
            for k, v in kw.items():
                H.dict_set(self.st, H.rid(d), mk_str(k), self.need_term(v))
            d.meta = ("kwargs", dict(kw))
            nf.locals[a.kwarg.arg] = d
        elif kw:
            raise PyRaise("TypeError", None, f"unexpected keyword {list(kw)}")
        # sharpen static types from annotations when the argument's type is unknown
        for p, sv in list(nf.locals.items()):
            if sv.ty is None and anns.get(p) is not None and sv.term is not None:
                t = parse_ann(anns[p])
                if t is not None and t.name not in ("any",):
                    nf.locals[p] = SV(sv.term, t, sv.meta)

    def call_function(self, fi: FuncInfo, args, kwargs, fr, selfsv, node) -> SV:
        if fi.other_decorators and fi.other_decorators != ["setter"] and not all(d.startswith("router.") for d in fi.other_decorators):
            raise Unsupported(f"decorated function {fi.qualname} {fi.other_decorators}")
        c = self.contracts.get(fi.qualname)
        if c is not None and self.pure and c.options.get("pure_result") is not None:
            from .api import Ctx
            return c.options["pure_result"](Ctx(self, fr, fi.qualname, node), args, kwargs)
        if c is not None and not c.inline:      # (a call of the function under verification itself is a recursive call: contract too)
            return self.apply_contract(c, fi, args, kwargs, fr, selfsv, node)
        if fi.is_generator and not getattr(self, "allow_generator_inline", False):
            return SV(None, Ty("generator"), ("generator", fi, args, kwargs, selfsv))
        return self.inline_call(fi, args, kwargs, selfsv)

    def inline_call(self, fi, args, kwargs, selfsv, parent_env=None) -> SV:
        depth = getattr(self, "_depth", 0)
        if depth >= MAX_INLINE_DEPTH:
            raise Unsupported(f"inline depth exceeded at {fi.qualname} (recursive? give it a contract)")
        stack = getattr(self, "_stack", [])
        if stack.count(fi.qualname) >= 2:
            raise Unsupported(f"recursive call of {fi.qualname} without contract")
        nf = Frame(fi, fi.module, self.contracts.get(fi.qualname), parent_env=parent_env)
        self.bind_params(fi, nf, args, kwargs, selfsv)
        self.inlined.add(fi.qualname)
        self._depth = depth + 1
        self._stack = stack + [fi.qualname]
        try:
            self.exec_block(fi.node.body, nf)
            return SV(NONE, Ty("none"))
        except ReturnEx as r:
            rv = r.val
            if rv.ty is None and fi.node.returns is not None and rv.term is not None:
                t = parse_ann(fi.node.returns)
                if t is not None and t.name != "any":
                    rv = SV(rv.term, t, rv.meta)
            return rv
        finally:
            self._depth = depth
            self._stack = stack

    # ------------------------------------------------------------------------------------ constructors
    def construct(self, ci: ClassInfo, args, kwargs, fr, node) -> SV:
        st = self.st
        if ci.is_enum(self.repo):
            raise Unsupported(f"enum lookup {ci.name}(value)")
        r = st.new_ref()
        st.write("$type", r, z3.IntVal(ci.cid))
        obj = SV(mk_ref(r), Ty(ci.name))
        init = ci.find_method(self.repo, "__init__")
        if init is not None:
            self.call_function(init, args, kwargs, fr, obj, node)
            return obj
        if ci.is_pydantic(self.repo) or ci.is_dataclass:
            order = []
            for c in reversed(ci.mro(self.repo)):
                for f in c.field_order:
                    if f not in order:
                        order.append(f)
            vals = dict(kwargs)
            for k, a in enumerate(args):
                vals[order[k]] = a
            for f in order:
                fty = ci.field_type(self.repo, f)
                if f in vals:
                    st.write(f, r, self.need_term(vals[f]))
                    continue
                ca = ci.find_class_attr(self.repo, f)
                if ca is not None:
                    try:
                        dv = self.ev(ca[1], Frame(None, ca[0].module))
                        st.write(f, r, self.need_term(dv))
                        continue
                    except Unsupported:
                        pass
                    st.write(f, r, self.fresh_sv("dflt_" + f, fty).term)
                elif fty is not None and fty.nullable:
                    st.write(f, r, NONE)
                else:
                    raise PyRaise("ValidationError", None, f"missing field {f}")
            return obj
        # exception-like / plain classes without __init__
        if args:
            st.write("args0", r, self.need_term(args[0]))
        return obj

    # ---------------------------------------------------------------------------- contract application
    def apply_contract(self, c, fi: FuncInfo, args, kwargs, fr, selfsv, node) -> SV:
        from .verify import apply_contract
        return apply_contract(self, c, fi, args, kwargs, fr, selfsv, node)
