"""Executor mixin: Python builtins, container / string methods and a few stdlib functions.

Anything not listed here and not given a handler in the contract's `calls` makes the function "not verifiable"
(reported), never silently skipped.
"""
from __future__ import annotations

import ast

import z3

from .repo import Ty
from .smt import IV, RV, BV, SVs, RID, Val, INT, NONE, TRUE, FALSE, mk_int, mk_real, mk_bool, mk_str, mk_ref, num, is_numeric, simplify_bool
from .state import SV, Unsupported, PyRaise
from . import heapops as H


class BuiltinsMixin:
    def call_external(self, dotted: str, args, kwargs, fr, node) -> SV:
        st = self.st
        name = dotted
        if name in ("len",):
            a = args[0]
            tn = a.ty.name if a.ty else None
            if a.meta and a.meta[0] == "dictview":
                d = a.meta[2]
                st.assume(H.dict_wf(st, H.rid(d)))
                return SV(mk_int(st.read("$dcnt", H.rid(d))), Ty("int"))
            if tn in ("list", "tuple"):
                return SV(mk_int(H.list_len(st, H.rid(a))), Ty("int"))
            if tn in ("dict", "set"):
                st.assume(H.dict_wf(st, H.rid(a)))
                return SV(mk_int(st.read("$dcnt", H.rid(a))), Ty("int"))
            if tn == "str":
                return SV(mk_int(z3.Length(SVs(a.term))), Ty("int"))
            raise Unsupported(f"len of {a.ty}")
        if name == "isinstance":
            return SV(mk_bool(self.isinstance_(args[0], node.args[1], fr)), Ty("bool"))
        if name == "issubclass":
            a, b = args
            if a.meta and a.meta[0] == "class" and b.meta and b.meta[0] == "class":
                return SV(mk_bool(a.meta[1].is_subclass_of(self.repo, b.meta[1].name) or a.meta[1] is b.meta[1]), Ty("bool"))
            raise Unsupported("issubclass on symbolic classes")
        if name == "type":
            a = args[0]
            ci = self.cls_of(a.ty, fr)
            if ci is not None:
                self.assumptions.add("A-EXACT-TYPE: type(x) taken as the static class of x")
                return SV(None, Ty("class"), ("class", ci))
            raise Unsupported("type() of untyped value")
        if name in ("list", "tuple"):
            if not args:
                return H.list_new(st, [], ty=Ty("list"))
            return self.to_list(args[0], fr, node)
        if name == "dict":
            if not args and not kwargs:
                return H.dict_new(st)
            if args and args[0].ty and args[0].ty.name == "dict":
                return self.dict_copy(args[0])
            raise Unsupported("dict(...) with arguments")
        if name == "set":
            if not args:
                return H.dict_new(st, Ty("set"))
            return self.to_set(args[0], fr, node)
        if name == "str":
            if not args:
                return SV(mk_str(""), Ty("str"))
            return SV(mk_str(self.str_of(args[0])), Ty("str"))
        if name == "repr":
            return SV(mk_str(self.uf_s("repr_of", self.need_term(args[0]))), Ty("str"))
        if name == "bool":
            return SV(mk_bool(self.truthy(args[0])), Ty("bool"))
        if name == "int":
            a = args[0]
            tn = a.ty.name if a.ty else None
            if tn == "int":
                return a
            if tn == "bool":
                return SV(mk_int(z3.If(BV(a.term), 1, 0)), Ty("int"))
            if tn == "float":
                self.assumptions.add("A-TRUNC: int(float) modelled as truncation toward zero over the reals")
                x = RV(a.term)
                return SV(mk_int(z3.If(x >= 0, z3.ToInt(x), -z3.ToInt(-x))), Ty("int"))
            if tn == "str":
                s = SVs(a.term)
                f = z3.Function("int_parses", z3.StringSort(), z3.BoolSort())
                self.raise_if(z3.Not(f(s)), "ValueError", "int(str)")
                g = z3.Function("int_of_str", z3.StringSort(), INT)
                return SV(mk_int(g(s)), Ty("int"))
            raise Unsupported(f"int() of {a.ty}")
        if name == "float":
            a = args[0]
            tn = a.ty.name if a.ty else None
            if tn in ("int", "float", "num", "bool"):
                return SV(mk_real(num(a.term)), Ty("float"))
            if tn == "str":
                s = SVs(a.term)
                f = z3.Function("float_parses", z3.StringSort(), z3.BoolSort())
                self.raise_if(z3.Not(f(s)), "ValueError", "float(str)")
                g = z3.Function("float_of_str", z3.StringSort(), z3.RealSort())
                return SV(mk_real(g(s)), Ty("float"))
            raise Unsupported(f"float() of {a.ty}")
        if name == "abs":
            a = args[0]
            if a.ty and a.ty.name == "int":
                x = IV(a.term)
                return SV(mk_int(z3.If(x >= 0, x, -x)), Ty("int"))
            x = num(a.term)
            return SV(mk_real(z3.If(x >= 0, x, -x)), Ty("float"))
        if name in ("min", "max") and len(args) == 2:
            a, b = args
            if a.ty and b.ty and a.ty.name == "int" and b.ty.name == "int":
                x, y = IV(a.term), IV(b.term)
                c = x <= y if name == "min" else x >= y
                return SV(mk_int(z3.If(c, x, y)), Ty("int"))
            x, y = num(a.term), num(b.term)
            c = x <= y if name == "min" else x >= y
            return SV(z3.If(c, a.term, b.term), a.ty if a.ty == b.ty else Ty("num"))
        if name in ("min", "max") and len(args) == 1:
            return self.minmax_list(name, args[0], kwargs, fr)
        if name == "zip":
            strict = False
            if "strict" in kwargs:
                strict = simplify_bool(self.truthy(kwargs["strict"])) is True
            return SV(None, Ty("iter"), ("zip", [self.iterable(a, fr) for a in args], strict))
        if name == "enumerate":
            start = kwargs.get("start", args[1] if len(args) > 1 else None)
            return SV(None, Ty("iter"), ("enumerate", self.iterable(args[0], fr), start))
        if name == "range":
            if len(args) == 1:
                return SV(None, Ty("iter"), ("range", z3.IntVal(0), IV(args[0].term)))
            if len(args) == 2:
                return SV(None, Ty("iter"), ("range", IV(args[0].term), IV(args[1].term)))
            raise Unsupported("range with step")
        if name in ("filter", "map") and len(args) == 2 and getattr(self, "lenient", False) and not self.pure:
            src = self.to_list(args[1], fr, node)
            r = H.rid(src)
            n = H.list_len(st, r)
            ety = src.ty.elt() if src.ty else None
            j = z3.Int(st.fresh_name("fj"))
            if name == "filter":
                # result: an ordered subsequence whose every element satisfies the predicate (predicate evaluated in spec mode)
                m = st.fresh("flen", INT)
                out = H.list_new(st, None, m, ty=src.ty)
                imap = st.fresh("fmap", z3.ArraySort(INT, INT))
                st.assume(z3.And(m >= 0, m <= n))
                self.pure += 1
                self.qdepth += 1
                try:
                    el = SV(H.list_get(st, H.rid(out), j), ety)
                    ok = self.truthy(self.lenient_apply(args[0], [el], {}, fr, node, 'filter-predicate'))
                finally:
                    self.pure -= 1
                    self.qdepth -= 1
                st.assume(z3.ForAll([j], z3.Implies(z3.And(0 <= j, j < m),
                                                    z3.And(ok, 0 <= z3.Select(imap, j), z3.Select(imap, j) < n,
                                                           H.list_get(st, H.rid(out), j) == H.list_get(st, r, z3.Select(imap, j))))))
                return out
            # map: the function is applied to an arbitrary element (exec mode, so its checks fire); the result list is opaque
            k = st.fresh("mk", INT)
            if st.decide(z3.And(0 <= k, k < n), "map: source non-empty"):
                el = SV(H.list_get(st, r, k), ety)
                self.assume_type(el.term, ety, fr)
                self.lenient_apply(args[0], [el], {}, fr, node, 'map-function')
            return H.list_new(st, None, n, ty=Ty("list"))
        if name == "reversed":
            raise Unsupported("reversed()")
        if name == "sorted":
            lst = self.to_list(args[0], fr, node)
            return self.sort_list(lst, kwargs, fr, inplace=False)
        if name in ("any", "all"):
            return self.any_all(name, args[0], fr)
        if name == "print":
            return SV(NONE, Ty("none"))
        if name == "id":
            return SV(mk_int(RID(args[0].term)), Ty("int"))
        if name == "hasattr" or name == "getattr" or name == "setattr":
            raise Unsupported(name + " (reflection)")
        if name == "time.time":
            now = st.fresh("now", z3.RealSort())
            prev = st.ghost.get("$now")
            if prev is not None:
                st.assume(now >= prev)
            st.ghost["$now"] = now
            st.ghost["now"] = SV(mk_real(now), Ty("float"))
            self.assumptions.add("time.time() returns a non-decreasing real")
            return SV(mk_real(now), Ty("float"))
        if name == "math.isclose":
            f = z3.Function("isclose", z3.RealSort(), z3.RealSort(), z3.BoolSort())
            x, y = num(args[0].term), num(args[1].term)
            st.assume(f(x, x))
            st.assume(f(y, y))
            st.assume(f(x, y) == f(y, x))
            self.assumptions.add("math.isclose kept as an uninterpreted reflexive symmetric relation")
            return SV(mk_bool(f(x, y)), Ty("bool"))
        if name in ("uuid.uuid4", "uuid4"):
            u = st.fresh_val("uuid")
            cnt = st.ghost.get("$uuid_n", 0)
            st.ghost["$uuid_n"] = cnt + 1
            self.assumptions.add("uuid4() returns a value distinct from every earlier one and from every pre-existing id")
            st.ghost.setdefault("$uuids", []).append(u)
            return SV(u, Ty("UUID"))
        if name in BUILTIN_EXC_NAMES:
            return self.make_builtin_exc(name, args)
        if name == "dict.fromkeys":
            src = self.to_list(args[0], fr, node)
            return self.set_from_list(src, as_dict=True)
        if name in ("typing.cast", "cast"):
            return args[1]
        if name in ("copy.copy", "copy.deepcopy"):
            a = args[0]
            if a.ty and a.ty.name in ("list", "tuple") and name == "copy.copy":
                return H.list_copy(st, H.rid(a), ty=a.ty)
            if a.ty and a.ty.name == "dict" and name == "copy.copy":
                return self.dict_copy(a)
            raise Unsupported(name)
        raise Unsupported(f"external call {dotted} (no handler in contract.calls)")

    def make_builtin_exc(self, name, args):
        st = self.st
        r = st.new_ref()
        st.write("$type", r, z3.IntVal(-abs(hash(name)) % 10**6 - 10))
        if args:
            st.write("args0", r, self.need_term(args[0]))
        return SV(mk_ref(r), Ty(name), ("excinst", name))

    def isinstance_(self, a: SV, clsnode, fr):
        nodes = clsnode.elts if isinstance(clsnode, ast.Tuple) else [clsnode]
        alts = []
        for n in nodes:
            nm = ast.unparse(n)
            t = a.term
            if nm == "float":
                alts.append(Val.is_VReal(t))
            elif nm == "int":
                alts.append(z3.Or(Val.is_VInt(t), Val.is_VBool(t)))
            elif nm == "bool":
                alts.append(Val.is_VBool(t))
            elif nm == "str":
                alts.append(Val.is_VStr(t))
            elif nm in ("Decimal", "decimal.Decimal"):
                alts.append(z3.BoolVal(False) if a.ty and a.ty.name in ("int", "float", "str", "bool") else
                            self.uf_b("is_decimal", t))
            elif nm in ("list", "tuple", "dict", "set"):
                if a.ty and a.ty.name in ("list", "tuple", "dict", "set"):
                    alts.append(z3.BoolVal(a.ty.name == nm))
                elif a.ty and a.ty.name in ("int", "float", "str", "bool", "none"):
                    alts.append(z3.BoolVal(False))
                else:
                    raise Unsupported(f"isinstance({a.ty}, {nm})")
            else:
                try:
                    sv = self.ev(n, fr)
                except Unsupported:
                    if not getattr(n, "spec_class_name", False):
                        raise
                    sv = SV(None, Ty("ext"), ("ext", nm))
                if not (sv.meta and sv.meta[0] == "class") and getattr(n, "spec_class_name", False):
                    # class named in a spec string (is_instance(x, 'Cls')): resolved through the repository index, not through the
                    # imports of the module the function lives in
                    rc = self.repo.resolve_class(nm, fr.module if fr else None)
                    if rc is not None:
                        sv = SV(None, Ty("type"), ("class", rc))
                if not (sv.meta and sv.meta[0] == "class"):
                    if sv.meta and sv.meta[0] == "ext":
                        alts.append(self.uf_b("isinstance_" + sv.meta[1].replace(".", "_"), t))
                        continue
                    raise Unsupported(f"isinstance target {nm}")
                ci = sv.meta[1]
                sci = self.cls_of(a.ty, fr)
                if sci is not None and (sci is ci or sci.is_subclass_of(self.repo, ci.name)):
                    alts.append(z3.Not(Val.is_VNone(t)) if a.ty.nullable else z3.BoolVal(True))
                    continue
                if ci.is_enum(self.repo):
                    mem = self.enum_members(ci)
                    alts.append(z3.Or([t == m.term for m in mem.values()]) if mem else z3.BoolVal(False))
                    continue
                subs = self.repo.subclasses(ci)
                alts.append(z3.And(Val.is_VRef(t), z3.Or([self.st.read("$type", RID(t)) == s.cid for s in subs])))
        return z3.Or(alts) if len(alts) != 1 else alts[0]

    def uf_b(self, name, *args):
        f = z3.Function(name, *([a.sort() for a in args] + [z3.BoolSort()]))
        return f(*args)

    # ------------------------------------------------------------------------------ iterables / lists
    def iterable(self, sv: SV, fr):
        """Normalise something iterable to an iteration descriptor:
        ('list', ref, elt_ty) | ('range', lo, hi) | ('zip', [desc], strict) | ('enumerate', desc, start) |
        ('dictitems', kind, keys_list_ref, dval_array, kty, vty) | ('tuple', [SV])"""
        m = sv.meta
        if m:
            if m[0] in ("zip", "enumerate", "range", "dictitems"):
                return m
            if m[0] == "tuple":
                return ("tuple", m[1])
            if m[0] == "dictview":
                kind, d = m[1], m[2]
                return self.dict_iter_desc(kind, d)
            if m[0] == "generator":
                raise Unsupported("iteration over a generator object")
        tn = sv.ty.name if sv.ty else None
        if tn in ("list", "tuple"):
            return ("list", H.rid(sv), sv.ty.elt() if tn == "list" else None)
        if tn in ("dict", "set"):
            return self.dict_iter_desc("keys", sv)
        if tn == "str":
            raise Unsupported("iteration over a string")
        raise Unsupported(f"iteration over {sv.ty}")

    def dict_iter_desc(self, kind, d: SV):
        """iteration over a dict = iteration over its (immutable) order array as it is now; nothing is allocated"""
        st = self.st
        r = H.rid(d)
        st.assume(H.dict_wf(st, r))
        return ("dictitems", kind, (st.read("$dord", r), st.read("$dcnt", r)), st.read("$dval", r),
                d.ty.elt(0) if d.ty else None, d.ty.elt(1) if d.ty else None)

    def iter_len(self, d):
        st = self.st
        k = d[0]
        if k == "list":
            return H.list_len(st, d[1])
        if k == "tuple":
            return z3.IntVal(len(d[1]))
        if k == "range":
            return z3.If(d[2] > d[1], d[2] - d[1], 0)
        if k == "dictitems":
            return d[2][1]
        if k == "enumerate":
            return self.iter_len(d[1])
        if k == "zip":
            lens = [self.iter_len(x) for x in d[1]]
            m = lens[0]
            for l in lens[1:]:
                m = z3.If(l < m, l, m)
            return m
        raise Unsupported("iter_len " + k)

    def iter_get(self, d, i, fr=None) -> SV:
        """element number i (z3 Int) of an iteration descriptor"""
        st = self.st
        k = d[0]
        if k == "list":
            v = H.list_get(st, d[1], i)
            self.assume_type(v, d[2], fr)
            return SV(v, d[2])
        if k == "tuple":
            iv = z3.simplify(i)
            if z3.is_int_value(iv):
                return d[1][iv.as_long()]
            raise Unsupported("symbolic index into tuple literal")
        if k == "range":
            return SV(mk_int(d[1] + i), Ty("int"))
        if k == "dictitems":
            key = z3.Select(d[2][0], i)
            self.assume_type(key, d[4], fr)
            val = z3.Select(d[3], key)
            self.assume_type(val, d[5], fr)
            ksv, vsv = SV(key, d[4]), SV(val, d[5])
            if d[1] == "keys":
                return ksv
            if d[1] == "values":
                return vsv
            return self.mk_tuple([ksv, vsv])
        if k == "enumerate":
            start = IV(d[2].term) if d[2] is not None else z3.IntVal(0)
            return self.mk_tuple([SV(mk_int(start + i), Ty("int")), self.iter_get(d[1], i, fr)])
        if k == "zip":
            return self.mk_tuple([self.iter_get(x, i, fr) for x in d[1]])
        raise Unsupported("iter_get " + k)

    def mk_tuple(self, elems) -> SV:
        sv = H.list_new(self.st, [self.need_term(e) for e in elems], ty=Ty("tuple", tuple(e.ty or Ty("any") for e in elems)))
        sv.meta = ("tuple", elems)
        return sv

    def mk_tuple_pure(self, elems) -> SV:
        """tuple value for immediate unpacking in spec mode (nothing allocated)"""
        return SV(NONE, Ty("tuple", tuple(e.ty or Ty("any") for e in elems)), ("tuple", elems))

    def to_list(self, sv: SV, fr, node=None) -> SV:
        st = self.st
        if sv.meta and sv.meta[0] == "genexp":
            return self.comprehension_list(sv.meta[1], sv.meta[2])
        d = self.iterable(sv, fr)
        if d[0] == "list":
            return H.list_copy(st, d[1], ty=Ty("list", (d[2],) if d[2] else ()))
        if d[0] == "tuple":
            return H.list_new(st, [self.need_term(e) for e in d[1]], ty=Ty("list"))
        if d[0] == "dictitems" and d[1] in ("keys",):
            out = H.list_new(st, None, d[2][1], ty=Ty("list", (d[4],) if d[4] else ()))
            st.write("$items", H.rid(out), d[2][0])
            return out
        if d[0] == "dictitems" and d[1] == "items":
            return self.materialize_items(d)
        if d[0] == "dictitems":
            n = self.iter_len(d)
            out = H.list_new(st, None, n, ty=Ty("list"))
            out.meta = ("lazyiter", d)
            if d[1] == "values":
                j = z3.Int(st.fresh_name("j"))
                st.assume(z3.ForAll([j], z3.Implies(z3.And(0 <= j, j < n),
                                                    H.list_get(st, H.rid(out), j) == z3.Select(d[3], z3.Select(d[2][0], j)))))
                out.meta = None
                out.ty = Ty("list", (d[5],) if d[5] else ())
            return out
        if d[0] == "range":
            n = self.iter_len(d)
            out = H.list_new(st, None, n, ty=Ty("list", (Ty("int"),)))
            j = z3.Int(st.fresh_name("j"))
            st.assume(z3.ForAll([j], z3.Implies(z3.And(0 <= j, j < n), H.list_get(st, H.rid(out), j) == mk_int(d[1] + j))))
            return out
        n = self.iter_len(d)
        out = H.list_new(st, None, n, ty=Ty("list"))
        out.meta = ("lazyiter", d)
        return out

    def materialize_items(self, d) -> SV:
        """list(dict.items()): a fresh list of n fresh 2-tuples (a block of n consecutive new references)"""
        st = self.st
        (ordr, cnt), dval, kty, vty = d[2], d[3], d[4], d[5]
        out = H.list_new(st, None, cnt, ty=Ty("list", (Ty("tuple", (kty or Ty("any"), vty or Ty("any"))),)))
        o = H.rid(out)
        base = st.alloc
        old_items, old_len = st.field("$items"), st.field("$len")
        new_items = st.fresh("H!$items", old_items.sort())
        new_len = st.fresh("H!$len", old_len.sort())
        r, j = z3.Int("mi!r"), z3.Int("mi!j")
        st.assume(z3.ForAll([r], z3.Implies(r < base, z3.And(z3.Select(new_items, r) == z3.Select(old_items, r),
                                                             z3.Select(new_len, r) == z3.Select(old_len, r)))))
        st.heap["$items"], st.heap["$len"] = new_items, new_len
        tup = lambda jj: base + jj
        st.assume(z3.ForAll([j], z3.Implies(z3.And(0 <= j, j < cnt), z3.And(
            z3.Select(z3.Select(new_items, o), j) == mk_ref(tup(j)),
            z3.Select(new_len, tup(j)) == 2,
            z3.Select(z3.Select(new_items, tup(j)), 0) == z3.Select(ordr, j),
            z3.Select(z3.Select(new_items, tup(j)), 1) == z3.Select(dval, z3.Select(ordr, j))))))
        na = st.fresh("alloc", INT)
        st.assume(na == base + cnt)
        st.alloc = na
        self.assumptions.add("list(d.items()) modelled as a block of fresh 2-tuples in dict order")
        return out

    def dict_copy(self, d: SV) -> SV:
        st = self.st
        r = H.rid(d)
        n = st.new_ref()
        for f in ("$dhas", "$dval", "$dcnt", "$dord", "$dpos"):
            st.write(f, n, st.read(f, r))
        return SV(mk_ref(n), d.ty)

    def set_from_list(self, lst: SV, as_dict=False) -> SV:
        """set(list) / dict.fromkeys(list): membership = list membership, order = first occurrence order."""
        st = self.st
        r = H.rid(lst)
        out = H.dict_new(st, Ty("dict" if as_dict else "set", (lst.ty.elt(),) if lst.ty and lst.ty.elt() else ()))
        o = H.rid(out)
        has = st.fresh("sethas", z3.ArraySort(Val, z3.BoolSort()))
        st.write("$dhas", o, has)
        k = z3.Const(st.fresh_name("k"), Val)
        j = z3.Int(st.fresh_name("j"))
        n = H.list_len(st, r)
        wit = st.fresh("setwit", z3.ArraySort(Val, INT))
        st.assume(z3.ForAll([j], z3.Implies(z3.And(0 <= j, j < n), z3.Select(has, H.list_get(st, r, j)))))
        st.assume(z3.ForAll([k], z3.Implies(z3.Select(has, k),
                                            z3.And(0 <= z3.Select(wit, k), z3.Select(wit, k) < n,
                                                   H.list_get(st, r, z3.Select(wit, k)) == k))))
        for f, srt in (("$dcnt", None), ("$dord", None), ("$dpos", None)):
            st.havoc_field(f, keep_pred=lambda x, o=o: x != o)
        st.assume(H.dict_wf(st, o))
        if as_dict:
            st.write("$dval", o, z3.K(Val, NONE))
        # first-occurrence order
        a, b = z3.Const(st.fresh_name("ka"), Val), z3.Const(st.fresh_name("kb"), Val)
        pos = st.read("$dpos", o)
        st.assume(z3.ForAll([a], z3.Implies(z3.Select(has, a),
                                            z3.ForAll([j], z3.Implies(z3.And(0 <= j, j < z3.Select(wit, a)),
                                                                      H.list_get(st, r, j) != a)))))
        st.assume(z3.ForAll([a, b], z3.Implies(z3.And(z3.Select(has, a), z3.Select(has, b)),
                                               (z3.Select(pos, a) < z3.Select(pos, b)) ==
                                               (z3.Select(wit, a) < z3.Select(wit, b)))))
        return out

    def to_set(self, sv, fr, node):
        if sv.ty and sv.ty.name == "set":
            return self.dict_copy(sv)
        lst = self.to_list(sv, fr, node)
        return self.set_from_list(lst)

    def sort_list(self, lst: SV, kwargs, fr, inplace=True) -> SV:
        """A-SORT: list.sort(key=f) / sorted() yields an ordered permutation of the input (stable)."""
        st = self.st
        r = H.rid(lst)
        n = H.list_len(st, r)
        old_items = st.read("$items", r)
        new_items = st.fresh("sorted", z3.ArraySort(INT, Val))
        perm = st.fresh("perm", z3.ArraySort(INT, INT))     # new index -> old index
        inv = st.fresh("perminv", z3.ArraySort(INT, INT))
        if inplace:
            target = r
        else:
            out = H.list_new(st, None, n, ty=lst.ty)
            target = H.rid(out)
        st.write("$items", target, new_items)
        st.write("$len", target, n)
        j, k = z3.Int(st.fresh_name("j")), z3.Int(st.fresh_name("k"))
        rng = lambda x: z3.And(0 <= x, x < n)
        st.assume(z3.ForAll([j], z3.Implies(rng(j), z3.And(rng(z3.Select(perm, j)), z3.Select(inv, z3.Select(perm, j)) == j,
                                                           z3.Select(new_items, j) == z3.Select(old_items, z3.Select(perm, j))))))
        st.assume(z3.ForAll([j], z3.Implies(rng(j), z3.And(rng(z3.Select(inv, j)), z3.Select(perm, z3.Select(inv, j)) == j))))
        keyf = kwargs.get("key")
        ety = lst.ty.elt() if lst.ty else None

        def key_of(t):
            if keyf is None:
                return num(t)
            self.pure += 1
            try:
                kv = self.call_value(keyf, [SV(t, ety)], {}, fr, None)
            finally:
                self.pure -= 1
            return num(kv.term) if not (kv.ty and kv.ty.name == "str") else SVs(kv.term)
        rev = kwargs.get("reverse")
        if rev is not None and simplify_bool(self.truthy(rev)) is not False:
            raise Unsupported("sort(reverse=...)")
        ka, kb = key_of(z3.Select(new_items, j)), key_of(z3.Select(new_items, k))
        st.assume(z3.ForAll([j, k], z3.Implies(z3.And(rng(j), rng(k), j < k),
                                               z3.And(ka <= kb, z3.Implies(ka == kb, z3.Select(perm, j) < z3.Select(perm, k))))))
        self.assumptions.add("A-SORT: list.sort/sorted yields a stable ordered permutation")
        st.ghost["$last_perm"] = (perm, inv)
        return SV(mk_ref(target), lst.ty) if not inplace else SV(NONE, Ty("none"))

    def minmax_list(self, name, a: SV, kwargs, fr):
        st = self.st
        lst = self.to_list(a, fr)
        r = H.rid(lst)
        n = H.list_len(st, r)
        self.raise_if(n <= 0, "ValueError", name + " of empty sequence")
        ety = lst.ty.elt() if lst.ty else None
        res = self.fresh_sv(name, ety)
        j = z3.Int(st.fresh_name("j"))
        w = st.fresh("w", INT)
        if "key" in kwargs:
            # max(xs, key=f): SOME element of xs (which one is maximal under f is not modelled)
            self.assumptions.add("A-MINMAX-KEY: min/max with key= returns some element of the sequence (extremality under the key not modelled)")
            st.assume(z3.And(0 <= w, w < n, H.list_get(st, r, w) == res.term))
            return res
        cmp = (lambda x, y: x <= y) if name == "max" else (lambda x, y: x >= y)
        st.assume(z3.ForAll([j], z3.Implies(z3.And(0 <= j, j < n), cmp(num(H.list_get(st, r, j)), num(res.term)))))
        st.assume(z3.And(0 <= w, w < n, H.list_get(st, r, w) == res.term))
        return res

    def any_all(self, name, a: SV, fr):
        if a.meta and a.meta[0] == "genexp":
            return self.quantified_genexp(name, a.meta[1], a.meta[2])
        lst = self.to_list(a, fr)
        st = self.st
        r = H.rid(lst)
        j = z3.Int(st.fresh_name("j"))
        ety = lst.ty.elt() if lst.ty else None
        body = self.truthy(SV(H.list_get(st, r, j), ety))
        rng = z3.And(0 <= j, j < H.list_len(st, r))
        if name == "all":
            return SV(mk_bool(z3.ForAll([j], z3.Implies(rng, body))), Ty("bool"))
        return SV(mk_bool(z3.Exists([j], z3.And(rng, body))), Ty("bool"))

    # ------------------------------------------------------------------------- methods on builtin types
    def call_method_builtin(self, base: SV, name: str, args, kwargs, fr, node) -> SV:
        st = self.st
        tn = base.ty.name if base.ty else None
        if name.startswith("super."):
            if name in ("super.__init__", "super.__init_subclass__", "super.__post_init__"):
                return SV(NONE, Ty("none"))
            raise Unsupported(f"super().{name[6:]} resolves outside the repository")
        if tn is None or tn == "any":
            if name in ("append", "extend", "insert", "sort"):
                tn = "list"
            elif name in ("items", "keys", "values", "get", "setdefault", "update"):
                tn = "dict"
            elif name in ("strip", "split", "startswith", "endswith", "lower", "upper", "format", "join", "replace"):
                tn = "str"
            elif name in ("add", "discard"):
                tn = "set"
            else:
                raise Unsupported(f"method {name} on value of unknown type: {ast.unparse(node)[:60] if node else ''}")
        if base.ty is not None and base.ty.nullable:
            self.raise_if(Val.is_VNone(base.term), "AttributeError", f"None.{name}")
        r = RID(base.term) if tn != "str" else None
        if tn in ("list", "tuple"):
            ety = base.ty.elt() if base.ty and tn == "list" else None
            if name == "append":
                H.list_append(st, r, self.need_term(args[0]))
                return SV(NONE, Ty("none"))
            if name == "extend":
                other = self.to_list(args[0], fr)
                cat = self.list_concat(base, other)
                c = H.rid(cat)
                st.write("$items", r, st.read("$items", c))
                st.write("$len", r, st.read("$len", c))
                return SV(NONE, Ty("none"))
            if name == "pop":
                n = H.list_len(st, r)
                self.raise_if(n <= 0, "IndexError", "pop from empty list")
                if not args:
                    return SV(H.list_pop_back(st, r), ety)
                i = z3.simplify(IV(args[0].term))
                if z3.is_int_value(i) and i.as_long() == 0:
                    return SV(H.list_pop_front(st, r), ety)
                if z3.is_int_value(i) and i.as_long() == -1:
                    return SV(H.list_pop_back(st, r), ety)
                raise Unsupported("list.pop(i) for i not in {0,-1}")
            if name == "insert":
                i = z3.simplify(IV(args[0].term))
                if z3.is_int_value(i) and i.as_long() == 0:
                    H.list_insert_front(st, r, self.need_term(args[1]))
                    return SV(NONE, Ty("none"))
                raise Unsupported("list.insert(i) for i != 0")
            if name == "clear":
                H.list_clear(st, r)
                return SV(NONE, Ty("none"))
            if name == "copy":
                return H.list_copy(st, r, ty=base.ty)
            if name == "sort":
                return self.sort_list(base, kwargs, fr, inplace=True)
            if name == "index":
                n = H.list_len(st, r)
                w = st.fresh("idx", INT)
                item = args[0]
                found = self.contains(base, item)
                self.raise_if(z3.Not(found), "ValueError", "list.index")
                j = z3.Int(st.fresh_name("j"))
                st.assume(z3.And(0 <= w, w < n, self.eq_terms(SV(H.list_get(st, r, w), ety), item),
                                 z3.ForAll([j], z3.Implies(z3.And(0 <= j, j < w),
                                                           z3.Not(self.eq_terms(SV(H.list_get(st, r, j), ety), item))))))
                return SV(mk_int(w), Ty("int"))
            if name == "remove":
                raise Unsupported("list.remove")
            if name == "count":
                raise Unsupported("list.count")
        if tn in ("dict", "set"):
            kty, vty = (base.ty.elt(0), base.ty.elt(1)) if base.ty else (None, None)
            if name in ("keys", "values", "items"):
                return SV(None, Ty("iter"), ("dictview", name, base))
            if name == "get":
                k = self.need_term(args[0])
                dflt = args[1] if len(args) > 1 else kwargs.get("default", SV(NONE, Ty("none")))
                if not self.pure:
                    # exec mode: decide membership (simpler terms per path than an if-then-else value)
                    if st.decide(H.dict_has(st, r, k), "dict.get present"):
                        v = H.dict_get(st, r, k)
                        self.assume_type(v, vty, fr)
                        return SV(v, vty)
                    return dflt
                v = z3.If(H.dict_has(st, r, k), H.dict_get(st, r, k), self.need_term(dflt))
                rty = None
                if vty is not None:
                    rty = vty if (dflt.ty == vty) else (vty.with_nullable() if dflt.ty and dflt.ty.name == "none" else None)
                st.assume(z3.Implies(H.dict_has(st, r, k), self.type_pred(H.dict_get(st, r, k), vty, fr)))
                return SV(v, rty)
            if name == "pop":
                k = self.need_term(args[0])
                has = H.dict_has(st, r, k)
                if len(args) > 1:
                    if self.pure or not st.decide(has, "dict.pop present"):
                        if self.pure:
                            raise Unsupported("dict.pop in spec")
                        return args[1]
                else:
                    self.raise_if(z3.Not(has), "KeyError", "dict.pop")
                v = H.dict_get(st, r, k)
                H.dict_del(st, r, k)
                self.assume_type(v, vty, fr)
                return SV(v, vty)
            if name == "clear":
                H.dict_clear(st, r)
                return SV(NONE, Ty("none"))
            if name == "copy":
                return self.dict_copy(base)
            if name == "add":
                H.dict_set(st, r, self.need_term(args[0]), TRUE)
                return SV(NONE, Ty("none"))
            if name == "discard":
                k = self.need_term(args[0])
                if st.decide(H.dict_has(st, r, k), "set.discard present"):
                    H.dict_del(st, r, k)
                return SV(NONE, Ty("none"))
            if name == "remove":
                k = self.need_term(args[0])
                self.raise_if(z3.Not(H.dict_has(st, r, k)), "KeyError", "set.remove")
                H.dict_del(st, r, k)
                return SV(NONE, Ty("none"))
            if name == "setdefault":
                k = self.need_term(args[0])
                if not st.decide(H.dict_has(st, r, k), "setdefault present"):
                    H.dict_set(st, r, k, self.need_term(args[1]))
                return SV(H.dict_get(st, r, k), vty)
            if name == "update":
                raise Unsupported("dict.update")
        if tn == "str":
            s = SVs(base.term)
            if name == "startswith":
                return SV(mk_bool(z3.PrefixOf(SVs(args[0].term), s)), Ty("bool"))
            if name == "endswith":
                return SV(mk_bool(z3.SuffixOf(SVs(args[0].term), s)), Ty("bool"))
            if name in ("strip", "lower", "upper", "lstrip", "rstrip", "title", "casefold"):
                if args:
                    raise Unsupported("str.strip(chars)")
                f = z3.Function("str_" + name, z3.StringSort(), z3.StringSort())
                self.assumptions.add(f"str.{name} kept uninterpreted")
                if name in ("strip", "lstrip", "rstrip") and not self.pure:
                    # ground facts about this application (true of Python's strip): idempotent, a substring, not longer
                    st.assume(z3.And(f(f(s)) == f(s), z3.Contains(s, f(s)), z3.Length(f(s)) <= z3.Length(s)))
                return SV(mk_str(f(s)), Ty("str"))
            if name == "join":
                f = z3.Function("str_join", z3.StringSort(), Val, z3.StringSort())
                lst = self.to_list(args[0], fr)
                return SV(mk_str(f(s, lst.term)), Ty("str"))
            if name == "format":
                self.dropped.add("str.format value (opaque string)")
                return SV(mk_str(st.fresh("fstr", z3.StringSort())), Ty("str"))
            if name == "split":
                return self.str_split(base, args, fr)
            if name == "replace":
                return SV(mk_str(z3.Replace(s, SVs(args[0].term), SVs(args[1].term))), Ty("str")) \
                    if False else self._unsupported("str.replace (replace-all)")
            if name == "index" or name == "find":
                sub = SVs(args[0].term)
                if name == "index":
                    self.raise_if(z3.Not(z3.Contains(s, sub)), "ValueError", "str.index")
                return SV(mk_int(z3.IndexOf(s, sub, 0)), Ty("int"))
            if name == "isdigit":
                f = z3.Function("str_isdigit", z3.StringSort(), z3.BoolSort())
                return SV(mk_bool(f(s)), Ty("bool"))
        raise Unsupported(f"method {tn}.{name}")

    def _unsupported(self, msg):
        raise Unsupported(msg)

    def str_split(self, base, args, fr):
        """s.split(sep) as an opaque list of strings with the facts: len >= 1; no sep => [s]; join inverse not modelled."""
        st = self.st
        s = SVs(base.term)
        out = H.list_new(st, None, st.fresh("nsplit", INT), ty=Ty("list", (Ty("str"),)))
        r = H.rid(out)
        n = H.list_len(st, r)
        st.assume(n >= 1)
        if args:
            sep = SVs(args[0].term)
            st.assume(z3.Implies(z3.Not(z3.Contains(s, sep)), z3.And(n == 1, H.list_get(st, r, 0) == mk_str(s))))
            st.assume(z3.Implies(z3.Contains(s, sep), n >= 2))
            # first piece is the text before the first separator
            st.assume(z3.Implies(z3.Contains(s, sep),
                                 H.list_get(st, r, 0) == mk_str(z3.SubString(s, 0, z3.IndexOf(s, sep, 0)))))
        self.assumptions.add("str.split modelled by: >=1 pieces, exactly 1 iff separator absent, first piece = prefix before the first separator")
        return out

    def type_pred(self, term, ty, fr, _depth=0):
        """type invariant as a formula (without assuming it)"""
        collected = []
        orig = self.st.assume
        saved_pure = self.qdepth
        self.qdepth = 0
        self.st.assume = lambda f: collected.append(f)
        try:
            self.assume_type(term, ty, fr, _depth)
        finally:
            self.st.assume = orig
            self.qdepth = saved_pure
        return z3.And(collected) if collected else z3.BoolVal(True)


BUILTIN_EXC_NAMES = {"Exception", "ValueError", "KeyError", "IndexError", "TypeError", "NotImplementedError",
                     "RuntimeError", "AssertionError", "AttributeError", "StopIteration", "ZeroDivisionError",
                     "TimeoutError", "ConnectionError", "OSError", "LookupError", "ArithmeticError", "BaseException"}
