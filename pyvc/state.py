"""Symbolic state: path condition, heap (one z3 array per field), decision replay, obligations."""
from __future__ import annotations

import hashlib
import os
import time
from dataclasses import dataclass, field

import z3

from .repo import Ty
from .smt import (Val, INT, field_sort, solve_fallback, simplify_bool, QUICK_TIMEOUT_MS)


class Unsupported(Exception):
    """The function uses a construct outside the executor's subset: it is reported not verifiable."""


class PathEnd(Exception):
    pass


class ReturnEx(Exception):
    def __init__(self, val):
        self.val = val


class BreakEx(Exception):
    pass


class ContinueEx(Exception):
    pass


class PyRaise(Exception):
    """A Python exception propagating in the program under verification."""
    def __init__(self, cls: str, val=None, note=""):
        super().__init__(cls)
        self.cls = cls
        self.val = val
        self.note = note


@dataclass
class SV:
    term: object = None          # z3 expr of sort Val (None for meta values)
    ty: Ty | None = None
    meta: object = None          # ('class', ClassInfo) ('func', FuncInfo) ('module', ModuleInfo) ('bound', FuncInfo, SV)
    #                              ('lambda', node, env, module) ('ext', dotted) ('builtin', name) ('extbound', SV, name)


class _EmptyModel:
    """stand-in passed to witness functions of literally-false obligations (they carry their own data)"""
    def eval(self, e, model_completion=True):
        return e

    def __getitem__(self, k):
        return None


@dataclass
class Obligation:
    name: str
    kind: str
    status: str            # discharged | failed | unknown
    backend: str
    seconds: float
    path_sig: str
    detail: str = ""
    witness: object = None
    model_text: str = ""
    path_labels: tuple = ()


_QCACHE = {}


def _split_index(e):
    """e == base + k  ->  (id(base), k) for an integer numeral k; plain terms are base + 0"""
    if z3.is_int_value(e):
        return (-1, e.as_long())
    if z3.is_app(e) and e.decl().kind() == z3.Z3_OP_ADD and e.num_args() == 2:
        a, b = e.arg(0), e.arg(1)
        if z3.is_int_value(b):
            return (a.get_id(), b.as_long())
        if z3.is_int_value(a):
            return (b.get_id(), a.as_long())
        return None
    if z3.is_const(e) or z3.is_app(e):
        return (e.get_id(), 0)
    return None


def has_quant(f) -> bool:
    """does the formula contain a quantifier (memoised DFS over the hash-consed AST)"""
    todo, seen = [f], set()
    while todo:
        e = todo.pop()
        i = e.get_id()
        if i in seen:
            continue
        seen.add(i)
        if z3.is_quantifier(e):
            return True
        if len(seen) > 20000:
            return True
        todo.extend(e.children())
    return False


class State:
    qf_mode = False
    hard_names = set()      # obligations already found undischargeable in this process: later instances get a short budget

    def __init__(self, prefix=None, timeout_ms=None):
        self.solver = z3.Solver()
        self.light = z3.Solver()          # quantifier-free part of the path condition: cheap feasibility pruning only
        self.light.set("timeout", 500)
        self.timeout_ms = timeout_ms or QUICK_TIMEOUT_MS
        self.solver.set("timeout", self.timeout_ms)
        self.pc = []
        self.heap = {}
        self._alloc_base = z3.Int("alloc0")
        self._alloc_bases = {self._alloc_base.get_id(): self._alloc_base}
        self._below_cache, self._below_tried, self._keep = {}, {}, []
        self._alloc_off = 0
        self.ghost = {}
        self.prefix = list(prefix or [])
        self.decisions = []
        self.labels = []
        self.pending = []
        self.counter = {}
        self.obligations: list[Obligation] = []
        self.entry_heap = None
        self.entry_locals = None
        self.marks = {}
        self.solver_time = 0.0
        self._seen = set()
        self._qfree = set()
        self.assume(self.alloc >= 1000)

    # ----------------------------------------------------------------------------------- naming
    def fresh_name(self, base):
        n = self.counter.get(base, 0)
        self.counter[base] = n + 1
        return f"{base}!{n}"

    def fresh(self, base, sort):
        return z3.Const(self.fresh_name(base), sort)

    def fresh_val(self, base="v"):
        return self.fresh(base, Val)

    # ------------------------------------------------------------------------------------- heap
    def field(self, name):
        if name not in self.heap:
            h0 = z3.Const(f"H0!{name}", field_sort(name))
            self.heap[name] = h0
            self._closure_axiom(name, h0)
        return self.heap[name]

    def _closure_axiom(self, name, h0):
        """entry-heap well-formedness: a reference stored in the entry heap points to an object that already exists"""
        if State.qf_mode:
            return      # bounded, quantifier-free runs state the facts they need as finite preconditions
        a0 = z3.Int("alloc0")
        r = z3.Int("cl!r")
        if name in ("$len", "$dcnt", "$type", "$dhas", "$dpos"):
            return
        if name == "$items" or name == "$dord":
            j = z3.Int("cl!j")
            e = z3.Select(z3.Select(h0, r), j)
            self.assume(z3.ForAll([r, j], z3.Implies(z3.And(r < a0, Val.is_VRef(e)), Val.rid(e) < a0), patterns=[e]))
        elif name == "$dval":
            k = z3.Const("cl!k", Val)
            e = z3.Select(z3.Select(h0, r), k)
            self.assume(z3.ForAll([r, k], z3.Implies(z3.And(r < a0, Val.is_VRef(e)), Val.rid(e) < a0), patterns=[e]))
        else:
            e = z3.Select(h0, r)
            self.assume(z3.ForAll([r], z3.Implies(z3.And(r < a0, Val.is_VRef(e)), Val.rid(e) < a0), patterns=[e]))

    def read(self, fld, rid):
        """select with syntactic select-over-store resolution for indices of the shape <base> + <numeral>"""
        arr = self.field(fld)
        key = _split_index(rid)
        while key is not None and z3.is_app(arr) and arr.decl().kind() == z3.Z3_OP_STORE:
            k2 = _split_index(arr.arg(1))
            if k2 is None:
                break
            if k2[0] != key[0]:
                # a store at a freshly allocated reference (alloc base + k) read at a reference the path condition already
                # places below that base: skipped (decided by the quantifier-free light solver, cached per pair of terms)
                if k2[0] in self._alloc_bases and k2[1] >= 0 and self._below(rid, k2[0]):
                    arr = arr.arg(0)
                    continue
                break
            if k2[1] == key[1]:
                return arr.arg(2)
            arr = arr.arg(0)
        return z3.Select(arr, rid)

    def _below(self, rid, base_id):
        ck = (rid.get_id(), base_id)
        hit = self._below_cache.get(ck)
        if hit:
            return True
        n_now = len(self.pc)
        last = self._below_tried.get(ck)
        if last is not None and last == n_now:
            return False
        self._below_tried[ck] = n_now
        base = self._alloc_bases[base_id]
        try:
            r = self.light.check(rid >= base)
        except z3.Z3Exception:
            return False
        if r == z3.unsat:
            self._below_cache[ck] = True
            self._keep.append(rid)
            return True
        return False

    def write(self, fld, rid, value):
        self.heap[fld] = z3.Store(self.field(fld), rid, value)

    @property
    def alloc(self):
        """next free reference: symbolic base + concrete offset (keeps select-over-store syntactically decidable)"""
        return self._alloc_base + self._alloc_off if self._alloc_off else self._alloc_base

    @alloc.setter
    def alloc(self, v):
        self._alloc_base, self._alloc_off = v, 0
        if z3.is_const(v):
            self._alloc_bases[v.get_id()] = v

    def new_ref(self):
        r = self.alloc
        self._alloc_off += 1
        return r

    def snapshot(self):
        return dict(self.heap), self.alloc

    def havoc_field(self, fld, keep_pred=None, old_alloc=None):
        """Replace field `fld` by a fresh array. keep_pred(r) -> z3 Bool: refs whose entry is preserved."""
        old = self.field(fld)
        new = self.fresh(f"H!{fld}", field_sort(fld))
        self.heap[fld] = new
        if keep_pred is not None:
            r = z3.Int("r!frame")
            self.assume(z3.ForAll([r], z3.Implies(keep_pred(r), z3.Select(new, r) == z3.Select(old, r))))
        return new

    # ----------------------------------------------------------------------------------- logic
    def assume(self, f):
        if f is True:
            return
        if z3.is_expr(f):
            fid = f.get_id()
            if fid in self._seen:
                return
            self._seen.add(fid)
        self.pc.append(f)
        self.solver.add(f)
        if z3.is_expr(f) and not self._has_quant_cached(f):
            self.light.add(f)

    def _has_quant_cached(self, f):
        """has_quant with a per-path memo of sub-DAGs already known to be quantifier-free (asserted formulas stay alive,
        so AST ids are stable for the lifetime of this State)"""
        todo = [f]
        local = set()
        while todo:
            e = todo.pop()
            i = e.get_id()
            if i in self._qfree or i in local:
                continue
            if z3.is_quantifier(e):
                return True
            local.add(i)
            if len(local) > 20000:
                return True
            todo.extend(e.children())
        self._qfree |= local
        return False

    def feasible(self, f=None):
        t = time.time()
        if f is not None and has_quant(f):
            r = z3.unknown
        else:
            r = self.light.check() if f is None else self.light.check(f)
        self.solver_time += time.time() - t
        return r != z3.unsat

    def reachable(self):
        """vacuity canary: the quantifier-free part of the path condition is satisfiable (unknown counts as reachable)"""
        self.light.set("timeout", 1000)
        r = self.light.check()
        self.light.set("timeout", 500)
        return r != z3.unsat

    def branch(self, conds, label=""):
        """n-way decision with replay. conds: z3 Bools (or True). Returns the chosen index; its condition is assumed."""
        k = len(self.decisions)
        if k < len(self.prefix):
            choice = self.prefix[k]
        else:
            feas = []
            for i, c in enumerate(conds):
                if c is True:
                    feas.append(i)
                    continue
                sb = simplify_bool(c)
                if sb is True:
                    feas = [i]
                    break
                if sb is False:
                    continue
                if self.feasible(c):
                    feas.append(i)
            if not feas:
                raise PathEnd()
            choice = feas[0]
            for other in feas[1:]:
                self.pending.append(self.decisions + [other])
        self.decisions.append(choice)
        self.labels.append(f"{label}={choice}")
        c = conds[choice]
        if c is not True:
            self.assume(c)
        return choice

    def decide(self, cond, label=""):
        return self.branch([cond, z3.Not(cond)], label) == 0

    def path_sig(self):
        return hashlib.sha1("|".join(self.labels).encode()).hexdigest()[:10]

    def _check_staged(self, f):
        """Stage 1: E-matching only (fast `unsat` for valid quantified VCs). Stage 2: full (MBQI) for counter-models."""
        neg = z3.Not(f)
        s1 = z3.Solver()
        s1.set("timeout", min(self.timeout_ms, 4000))
        s1.set("smt.mbqi", False)
        s1.set("smt.auto_config", False)
        for a in self.pc:
            s1.add(a)
        s1.add(neg)
        r = s1.check()
        if r == z3.unsat:
            return r, None
        from .smt import uses_strings, solve_cvc5
        if uses_strings(self.pc + [neg]):
            cr = solve_cvc5(self.pc + [neg], min(self.timeout_ms, 5000))
            if cr.status == "unsat":
                self._last_backend = cr.backend
                return z3.unsat, None
        # stage 1b: the VC with its universally quantified assumptions replaced by finitely many instances is WEAKER than
        # the VC, so `unsat` here discharges the obligation (cheap and often enough); `sat` is only a candidate.
        from .smt import candidate_model
        r3s, m3 = candidate_model(self.pc, neg, min(self.timeout_ms, 3000))
        self._cand = (r3s, m3)
        if r3s == "unsat":
            self._last_backend = "z3-5.1(api,finite instances of the quantified assumptions)"
            return z3.unsat, None
        self.solver.push()
        self.solver.add(neg)
        r = self.solver.check()
        model = self.solver.model() if r == z3.sat else None
        self.solver.pop()
        return r, model

    def check(self, name, f, kind="assert", witness_fn=None, detail="", assume_after=True, literal_ok=False):
        """Emit the obligation pc => f. Afterwards f is assumed (so one failure does not cascade)."""
        t = time.time()
        sb = simplify_bool(f) if z3.is_expr(f) else (True if f is True else None)
        status, backend, wit, mtxt = None, "z3-5.1(api,incremental)", None, ""
        if sb is True:
            status, backend = "discharged", "simplifier"
        elif sb is False and literal_ok and self.reachable():
            # the obligation itself is syntactically false (e.g. a ghost/event-order obligation decided by the handler) and the path is
            # feasible as far as the quantifier-free part of the path condition goes: refuted without consulting the heap axioms
            status, backend = "failed", "simplifier (obligation is literally false on a feasible path)"
            model = None
            if witness_fn is not None:
                try:
                    wit = witness_fn(z3.Solver().model() if False else _EmptyModel())
                except Exception:
                    wit = None
        else:
            self._last_backend = None
            repeat = name in State.hard_names
            saved_to = self.timeout_ms
            if repeat:
                self.timeout_ms = min(self.timeout_ms, 2000)
                self.solver.set("timeout", self.timeout_ms)
            r, model = self._check_staged(f)
            cand = False
            if r == z3.unsat:
                status = "discharged"
                backend = self._last_backend or backend
            elif r == z3.sat:
                status = "failed"
            else:
                # stage 3: candidate counter-model from the VC without its quantified assumptions; it is only ever
                # used as an input for native replay (a candidate that does not replay decides nothing)
                r3s, m3 = getattr(self, "_cand", ("unknown", None))
                r3 = z3.sat if r3s == "sat" else (z3.unsat if r3s == "unsat" else z3.unknown)
                if r3 == z3.sat and witness_fn is None and not repeat:
                    # a candidate exists (and no replayer could use it): the obligation is probably false, so a longer
                    # run on the FULL VC is worth it
                    fr = solve_fallback(self.pc + [z3.Not(f)], max(self.timeout_ms * 3, 30000))
                    if fr.status == "sat":
                        model, status, backend = (fr.model or m3), "failed", fr.backend + " (full VC)"
                    elif fr.status == "unsat":
                        model, status, backend = None, "discharged", fr.backend
                if r3 == z3.sat and status is None:
                    model, cand, status = m3, True, "unknown"
                    backend = "z3-5.1(api,instantiated-candidate)"
                    detail = (detail + " candidate counter-model from finitely instantiated VC").strip()
                elif r3 == z3.unsat:
                    status, backend = "discharged", "z3-5.1(api,finite instances of the quantified assumptions)"
                elif status is None and repeat:
                    status, detail = "unknown", (detail + " (short budget: same obligation already undischarged on another path)").strip()
                elif status is None:
                    fr = solve_fallback(self.pc + [z3.Not(f)], self.timeout_ms)
                    backend = fr.backend
                    status = {"unsat": "discharged", "sat": "failed", "unknown": "unknown"}[fr.status]
                    model = fr.model
                    if status == "unknown":
                        detail = (detail + " reason=" + fr.reason).strip()
            if repeat:
                self.timeout_ms = saved_to
                self.solver.set("timeout", self.timeout_ms)
            if status in ("failed", "unknown"):
                State.hard_names.add(name)
            if status in ("failed", "unknown"):
                if model is not None and witness_fn is not None:
                    try:
                        wit = witness_fn(model)
                    except Exception as ex:  # concretiser problems never change a verdict
                        wit = {"concretiser_error": repr(ex)}
                if model is not None:
                    mtxt = _model_text(model)
        if status != "discharged" and os.environ.get("PYVC_DUMP"):
            d = os.environ["PYVC_DUMP"]
            os.makedirs(d, exist_ok=True)
            sd = z3.Solver()
            for a in self.pc:
                sd.add(a)
            sd.add(z3.Not(f))
            fn = "".join(c if c.isalnum() else "_" for c in name)[-80:] + "@" + self.path_sig()
            open(os.path.join(d, fn + ".smt2"), "w").write(sd.to_smt2())
        dt = time.time() - t
        self.solver_time += dt
        self.obligations.append(Obligation(name, kind, status, backend, dt, self.path_sig(), detail, wit, mtxt,
                                           tuple(self.labels) if status != "discharged" else ()))
        if not assume_after:
            return status == "discharged"
        if status != "discharged" and z3.is_expr(f):
            self.assume(f)
        elif z3.is_expr(f) and sb is None:
            self.assume(f)
        return status == "discharged"


def _model_text(model, limit=4000):
    try:
        s = str(model)
    except Exception:
        s = "<model unprintable>"
    return s[:limit]
