"""Python `re` pattern (as parsed by CPython's own sre parser) -> z3 regular expression, for the subset the repository's argument
patterns use. The language computed is that of `re.search(pattern, s) is not None` for patterns whose every top-level alternative
starts with `^` and ends with `$` (checked; anything else is reported as outside the subset, never guessed).

Semantics encoded (and the only ones): literals, `.`, character sets with ranges/negation, `\\s` `\\d` `\\w` categories (str
patterns: Unicode `isspace` / ASCII digits as written by `[0-9]`), alternation, (named / non-capturing) groups, greedy and lazy
repeats (same language), `^` at the start, `$` at the end (= end of string, or just before one final newline), negative lookbehind
of a fixed string directly after an anchored prefix."""
from __future__ import annotations

import re
import sys

import z3

try:
    import re._parser as sre_parse          # 3.11+
    import re._constants as sre_c
except ImportError:                          # pragma: no cover
    import sre_parse
    import sre_constants as sre_c


class OutsideSubset(Exception):
    pass


MAXCHAR = 0x2FFFF        # z3's character range
_SPACE = [c for c in range(0, MAXCHAR + 1) if chr(c).isspace()]


def _lit(c: int):
    return z3.Re(z3.StringVal(chr(c)))


def _chr_range(lo, hi):
    return z3.Range(z3.StringVal(chr(lo)), z3.StringVal(chr(hi)))


def any_char():
    return z3.AllChar(z3.ReSort(z3.StringSort()))


def space_class():
    return z3.Union(*[_lit(c) for c in _SPACE])


def _category(cat):
    if cat == sre_c.CATEGORY_SPACE:
        return space_class()
    if cat == sre_c.CATEGORY_DIGIT:
        raise OutsideSubset("\\d (Unicode digits) not modelled")
    raise OutsideSubset(f"category {cat}")


def _in_set(items):
    neg = False
    parts = []
    for op, av in items:
        if op == sre_c.NEGATE:
            neg = True
        elif op == sre_c.LITERAL:
            parts.append(_lit(av))
        elif op == sre_c.RANGE:
            parts.append(_chr_range(av[0], av[1]))
        elif op == sre_c.CATEGORY:
            parts.append(_category(av))
        else:
            raise OutsideSubset(f"set item {op}")
    u = parts[0] if len(parts) == 1 else z3.Union(*parts)
    if neg:
        return z3.Intersect(any_char(), z3.Complement(u))
    return u


def _seq(items, anchored_prefix_ok=True):
    """language of a concatenation; lookbehinds are resolved against the prefix of the same sequence"""
    acc = None        # language of the items so far (None = epsilon)

    def cat(a, b):
        return b if a is None else z3.Concat(a, b)
    for op, av in items:
        if op == sre_c.ASSERT_NOT:
            direction, sub = av
            if direction != -1:
                raise OutsideSubset("negative lookahead")
            x = _seq(list(sub))
            if acc is None:
                raise OutsideSubset("lookbehind without a prefix")
            # valid because the prefix starts at the beginning of the string (top-level `^` is checked by the caller)
            acc = z3.Intersect(acc, z3.Complement(z3.Concat(z3.Full(z3.ReSort(z3.StringSort())), x)))
            continue
        acc = cat(acc, _node(op, av))
    return acc if acc is not None else z3.Re(z3.StringVal(""))


def _node(op, av):
    if op == sre_c.LITERAL:
        return _lit(av)
    if op == sre_c.NOT_LITERAL:
        return z3.Intersect(any_char(), z3.Complement(_lit(av)))
    if op == sre_c.ANY:
        return z3.Intersect(any_char(), z3.Complement(_lit(10)))        # `.` without DOTALL
    if op == sre_c.IN:
        return _in_set(av)
    if op == sre_c.BRANCH:
        _, alts = av
        return z3.Union(*[_seq(list(a)) for a in alts]) if len(alts) > 1 else _seq(list(alts[0]))
    if op == sre_c.SUBPATTERN:
        sub = av[-1]
        return _seq(list(sub))
    if op in (sre_c.MAX_REPEAT, sre_c.MIN_REPEAT):
        lo, hi, sub = av
        r = _seq(list(sub))
        if hi == sre_c.MAXREPEAT:
            if lo == 0:
                return z3.Star(r)
            if lo == 1:
                return z3.Plus(r)
            return z3.Concat(z3.Loop(r, lo, lo), z3.Star(r))
        if lo == 0 and hi == 1:
            return z3.Option(r)
        return z3.Loop(r, lo, hi)
    if op == sre_c.AT:
        raise OutsideSubset(f"anchor {av} in the middle of a pattern")
    raise OutsideSubset(f"regex op {op}")


def _strip_anchors(items):
    """one top-level alternative: must be `^ ... $`; nested groups that are themselves fully anchored alternatives are unfolded"""
    items = list(items)
    if len(items) == 1 and items[0][0] == sre_c.SUBPATTERN:
        return _alternatives(items[0][1][-1])
    if len(items) == 1 and items[0][0] == sre_c.BRANCH:
        out = []
        for a in items[0][1][1]:
            out.extend(_strip_anchors(list(a)))
        return out
    if not items or items[0] != (sre_c.AT, sre_c.AT_BEGINNING):
        raise OutsideSubset("alternative does not start with ^")
    if items[-1] != (sre_c.AT, sre_c.AT_END):
        return [items[1:] + [("$open", None)]]        # no end anchor: re.search accepts any continuation
    return [items[1:-1]]


def _alternatives(parsed):
    items = list(parsed)
    return _strip_anchors(items)


def search_language(pattern: str):
    """z3 regex R with: re.search(pattern, s) is not None  <=>  s in R  (for the anchored subset)"""
    parsed = sre_parse.parse(pattern)
    alts = _alternatives(parsed)
    nl_opt = z3.Option(_lit(10))             # `$` also matches just before one trailing newline
    full = z3.Full(z3.ReSort(z3.StringSort()))
    langs = [z3.Concat(_seq(a[:-1]), full) if (a and a[-1][0] == "$open") else z3.Concat(_seq(a), nl_opt) for a in alts]
    return langs[0] if len(langs) == 1 else z3.Union(*langs)


def lit(s: str):
    return z3.Re(z3.StringVal(s))


def union(rs):
    rs = list(rs)
    if not rs:
        return z3.Empty(z3.ReSort(z3.StringSort()))
    return rs[0] if len(rs) == 1 else z3.Union(*rs)


if __name__ == "__main__":
    pat = sys.argv[1]
    print(sre_parse.parse(pat))
    print(search_language(pat))
