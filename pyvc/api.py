"""API handed to sidecar handlers (assumed contracts of external calls, ghost updates, witnesses)."""
from __future__ import annotations

import fractions

import z3

from .repo import Ty, parse_ann
from .smt import IV, RV, BV, SVs, RID, Val, INT, NONE, mk_int, mk_real, mk_bool, mk_str, mk_ref, num
from .state import SV, PyRaise, PathEnd, Unsupported
from . import heapops as H


class Ctx:
    def __init__(self, ex, fr, text, node):
        self.ex, self.fr, self.text, self.node = ex, fr, text, node
        self.st = ex.st
        self.H = H
        self.z3 = z3
        self.Val = Val

    # values
    def fresh(self, base, ty=None) -> SV:
        return self.ex.fresh_sv(base, parse_ann(ty) if isinstance(ty, str) else ty)

    def none(self):
        return SV(NONE, Ty("none"))

    def int(self, x):
        return SV(mk_int(x), Ty("int"))

    def bool(self, x):
        return SV(mk_bool(x), Ty("bool"))

    def str(self, x):
        return SV(mk_str(x), Ty("str"))

    def real(self, x):
        return SV(mk_real(x), Ty("float"))

    def typed(self, sv, ty):
        return SV(sv.term, parse_ann(ty) if isinstance(ty, str) else ty, sv.meta)

    # logic
    def assume(self, f):
        self.st.assume(f)

    def check(self, label, f, kind="assert"):
        fn = self.fr.func.qualname.split(":")[1] if self.fr.func else "?"
        return self.st.check(f"{self.ex.prop_id}/{fn}/{label}", f, kind, self.ex.witness_fn(self.fr))

    def decide(self, cond, label=""):
        return self.st.decide(cond, label)

    def choose(self, n, label=""):
        return self.st.branch([True] * n, label)

    def raise_(self, cls, note=""):
        raise PyRaise(cls, None, note)

    def spec(self, expr, **env) -> SV:
        saved = dict(self.ex.spec_env)
        self.ex.spec_env.update(env)
        try:
            return self.ex.spec_eval(expr, self.fr)
        finally:
            self.ex.spec_env = saved

    def spec_bool(self, expr, **env):
        return self.ex.truthy(self.spec(expr, **env))

    def truthy(self, sv):
        return self.ex.truthy(sv)

    @property
    def ghost(self):
        return self.st.ghost

    def local(self, name):
        return self.fr.lookup(name)

    # heap helpers
    def rid(self, sv):
        return RID(sv.term)

    def list_len(self, sv):
        return H.list_len(self.st, RID(sv.term))

    def list_get(self, sv, k, ty=None):
        k = k if z3.is_expr(k) else z3.IntVal(k)
        return SV(H.list_get(self.st, RID(sv.term), k), ty or (sv.ty.elt() if sv.ty else None))

    def new_list(self, length=None, elems=None, ty="list"):
        return H.list_new(self.st, [e.term for e in elems] if elems is not None else None, length,
                          parse_ann(ty) if isinstance(ty, str) else ty)

    def read(self, sv, fld, ty=None):
        return SV(self.st.read(fld, RID(sv.term)), parse_ann(ty) if isinstance(ty, str) else ty)

    def old_heap(self):
        return self.fr.entry_heap

    # calling real repo functions from lemma scripts / handlers
    def call(self, qualname, args=(), kwargs=None, self_sv=None):
        fi = self.ex.repo.func(qualname)
        return self.ex.call_function(fi, list(args), dict(kwargs or {}), self.fr, self_sv, None)

    def new_object(self, clsname, **fields):
        ci = self.ex.repo.resolve_class(clsname)
        r = self.st.new_ref()
        self.st.write("$type", r, z3.IntVal(ci.cid))
        for k, v in fields.items():
            self.st.write(k, r, v.term)
        return SV(mk_ref(r), Ty(ci.name))

    def check_w(self, label, f, witness, kind="lemma"):
        """check with an explicit witness function model -> json"""
        fn = self.fr.func.qualname.split(":")[1] if self.fr.func else "?"
        return self.st.check(f"{self.ex.prop_id}/{fn}/{label}", f, kind, witness, assume_after=False)

    def model_value(self, model, sv):
        return concretize(self.ex, sv, model, self.fr.entry_heap or {}, 3)

    # model concretisation for replay files
    def concretize(self, sv: SV, model, heap=None, depth=4):
        return concretize(self.ex, sv, model, heap if heap is not None else self.fr.entry_heap, depth)


def _num(v):
    if z3.is_int_value(v):
        return v.as_long()
    if z3.is_rational_value(v):
        fr = fractions.Fraction(v.numerator_as_long(), v.denominator_as_long())
        return float(fr)
    if z3.is_algebraic_value(v):
        return float(v.approx(10).as_fraction())
    return None


def concretize(ex, sv: SV, model, heap, depth=4):
    """Best-effort concrete Python structure for a symbolic value under `model`, reading containers and object
    fields from `heap` (a field->array snapshot). Objects become {'$class': name, field: value...}."""
    if sv.term is None:
        return {"$meta": str(sv.meta[0]) if sv.meta else None}
    t = model.eval(sv.term, model_completion=True)
    return _conc_val(ex, t, sv.ty, model, heap, depth)


def _conc_val(ex, t, ty, model, heap, depth):
    ev = lambda e: model.eval(e, model_completion=True)
    if z3.is_true(ev(Val.is_VNone(t))):
        return None
    if z3.is_true(ev(Val.is_VBool(t))):
        return z3.is_true(ev(BV(t)))
    if z3.is_true(ev(Val.is_VInt(t))):
        return _num(ev(IV(t)))
    if z3.is_true(ev(Val.is_VReal(t))):
        return _num(ev(RV(t)))
    if z3.is_true(ev(Val.is_VStr(t))):
        return ev(SVs(t)).as_string()
    rid = ev(RID(t))
    ridv = rid.as_long()
    if depth <= 0:
        return {"$ref": ridv}
    tn = ty.name if ty else None

    def fld(name):
        from .smt import field_sort
        arr = heap.get(name)
        if arr is None:
            arr = z3.Const(f"H0!{name}", field_sort(name))
        return arr
    if tn in ("list", "tuple"):
        n = _num(ev(z3.Select(fld("$len"), rid))) or 0
        items = z3.Select(fld("$items"), rid)
        ety = ty.elt() if tn == "list" else None
        out = []
        for k in range(min(max(n, 0), 12)):
            e = ev(z3.Select(items, k))
            ek = ty.args[k] if tn == "tuple" and k < len(ty.args) else ety
            out.append(_conc_val(ex, e, ek, model, heap, depth - 1))
        return out
    if tn in ("dict", "set"):
        n = _num(ev(z3.Select(fld("$dcnt"), rid))) or 0
        ordr = z3.Select(fld("$dord"), rid)
        dval = z3.Select(fld("$dval"), rid)
        out = []
        for k in range(min(max(n, 0), 12)):
            key = ev(z3.Select(ordr, k))
            kc = _conc_val(ex, key, ty.elt(0), model, heap, depth - 1)
            if tn == "set":
                out.append(kc)
            else:
                out.append([kc, _conc_val(ex, ev(z3.Select(dval, key)), ty.elt(1), model, heap, depth - 1)])
        return {"$dict": out} if tn == "dict" else {"$set": out}
    ci = ex.cls_of(ty) if ty else None
    if ci is not None:
        if ci.is_enum(ex.repo):
            for name, m in ex.enum_members(ci).items():
                if z3.is_true(ev(m.term == t)):
                    return {"$enum": f"{ci.name}.{name}"}
            return {"$enum": ci.name + ".?"}
        out = {"$class": ci.name, "$ref": ridv}
        for c in ci.mro(ex.repo):
            for f, fty in c.annotations.items():
                if f in out:
                    continue
                out[f] = _conc_val(ex, ev(z3.Select(fld(f), rid)), fty, model, heap, depth - 1)
        return out
    return {"$ref": ridv}
