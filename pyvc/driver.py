"""Per-property check driver: verify every target against its contract, replay counter-models on the real code,
apply the known-findings file, write evidence, print VIOLATION / KNOWN-FINDING / UNDECIDED lines.

exit 0 held (known findings reproduced) · 1 unlisted violation · 2 undecided · 3 checker crash
"""
from __future__ import annotations

import importlib
import json
import logging
import os
import sys
import time
import traceback
from concurrent.futures import ProcessPoolExecutor

VERIF = os.path.dirname(os.path.dirname(os.path.abspath(__file__)))
OUT = os.environ.get("VERIF_OUT", VERIF)      # evidence/ and replays/ of scratch-copy runs go elsewhere
REPO_ROOT = os.environ.get("VERIF_REPO", "/repo")


def _worker(args):
    modname, target, prop_id, timeout_ms = args
    sys.path.insert(0, VERIF)
    from pyvc.repo import Repo
    from pyvc.verify import verify_function
    m = importlib.import_module(modname)
    contracts = {c.key: c for c in m.CONTRACTS}
    repo = Repo(REPO_ROOT)
    rep = verify_function(repo, contracts, target, prop_id, timeout_ms=timeout_ms,
                          spec_funcs=getattr(m, "SPEC_FUNCS", None), max_paths=getattr(m, "MAX_PATHS", 4000))
    return rep


def _lemma_worker(args):
    modname, idx, prop_id, timeout_ms = args
    sys.path.insert(0, VERIF)
    m = importlib.import_module(modname)
    t = time.time()
    try:
        from pyvc.repo import Repo
        from pyvc.verify import run_script
        name, script = m.LEMMAS[idx]
        contracts = {c.key: c for c in m.CONTRACTS}
        rep = run_script(Repo(REPO_ROOT), contracts, prop_id, name, script, timeout_ms, spec_funcs=getattr(m, "SPEC_FUNCS", None))
        return ("ok", rep, time.time() - t)
    except Exception as e:
        return ("crashed", f"{type(e).__name__}: {e}\n{traceback.format_exc()[-1500:]}", time.time() - t)


def load_known():
    p = os.path.join(VERIF, "known_findings.json")
    if not os.path.exists(p):
        return []
    return json.load(open(p))["findings"]


def load_baseline(prop):
    p = os.path.join(VERIF, "contracts", "baseline_obligations.json")
    if not os.path.exists(p):
        return set()
    return set(json.load(open(p)).get(prop, []))


def run_property(modname: str, tier: str = "quick", write_baseline=False) -> int:
    t0 = time.time()
    logging.disable(logging.CRITICAL)
    sys.path.insert(0, REPO_ROOT)     # replays import the tree the VCs came from
    sys.path.insert(0, VERIF)
    m = importlib.import_module(modname)
    prop = m.PROP
    seed = int(os.environ.get("VERIF_SEED", "0"))
    timeout_ms = int(os.environ.get("PYVC_TIMEOUT_MS", "10000" if tier == "quick" else "60000"))
    targets = list(m.TARGETS)
    lemmas = list(getattr(m, "LEMMAS", []))
    jobs = [(modname, t, prop, timeout_ms) for t in targets]
    reports, lemma_obs, crashed = [], [], []
    with ProcessPoolExecutor(max_workers=min(16, max(1, len(jobs) + len(lemmas)))) as pool:
        futs = [pool.submit(_worker, j) for j in jobs]
        lfuts = [pool.submit(_lemma_worker, (modname, i, prop, timeout_ms)) for i in range(len(lemmas))]
        for f in futs:
            try:
                reports.append(f.result())
            except Exception as e:
                crashed.append(f"worker: {type(e).__name__}: {e}")
        for f in lfuts:
            try:
                st, obs, sec = f.result()
                if st == "ok":
                    reports.append(obs)
                else:
                    crashed.append("lemma: " + obs)
            except Exception as e:
                crashed.append(f"lemma worker: {type(e).__name__}: {e}")

    # ---------------------------------------------------------------------------------- aggregate
    from pyvc.state import Obligation
    inst = []   # (obligation instance)
    for r in reports:
        inst.extend(r.obligations)
    inst.extend(lemma_obs)
    by_name = {}
    for o in inst:
        by_name.setdefault(o.name, []).append(o)
    not_verifiable = [r for r in reports if r.status == "not-verifiable"]
    crashed += [f"{r.qualname}: {r.reason}" for r in reports if r.status == "crashed"]
    vacuous = [r for r in reports if r.status == "ok" and r.feasible_exits == 0 and not getattr(m, "ALLOW_NO_EXIT", False)]

    known = [k for k in load_known() if k["property"] == prop]
    baseline = load_baseline(prop)
    replay_dir = os.path.join(OUT, "replays", prop)
    os.makedirs(replay_dir, exist_ok=True)
    for fn in os.listdir(replay_dir):
        os.unlink(os.path.join(replay_dir, fn))

    lines, violations, undecided, known_hit = [], [], [], []
    seen_fail = set()
    replayer = getattr(m, "replay", None)
    for o in inst:
        if o.status == "discharged":
            continue
        key = (o.name, o.path_sig)
        if key in seen_fail:
            continue
        seen_fail.add(key)
        confirmed, observation = False, None
        listed = any(k.get("status", "known") == "known" and k["obligation"] == o.name and
                     (not k.get("path_sigs") or o.path_sig in k["path_sigs"]) for k in known)
        if replayer is not None and (o.witness is not None or listed or getattr(m, "REPLAY_WITHOUT_WITNESS", False)) \
                and "concretiser_error" not in (o.witness if isinstance(o.witness, dict) else {}):
            try:
                import contextlib
                import io
                with contextlib.redirect_stdout(io.StringIO()), contextlib.redirect_stderr(io.StringIO()):
                    res = replayer(o.name, o.witness)
                confirmed, observation = bool(res.get("confirmed")), res
            except Exception as e:
                observation = {"replay_error": f"{type(e).__name__}: {e}", "trace": traceback.format_exc()[-800:]}
        kf = None
        for k in known:
            if k.get("status", "known") != "known":
                continue
            if k["obligation"] == o.name and (not k.get("path_sigs") or o.path_sig in k["path_sigs"]):
                kf = k
                break
        rfile = os.path.join(replay_dir, _safe(o.name) + "@" + o.path_sig + ".json")
        payload = {"property": prop, "obligation": o.name, "kind": o.kind, "path_signature": o.path_sig,
                   "solver_status": o.status, "backend": o.backend, "detail": o.detail, "witness": o.witness,
                   "replay": observation, "solver_model": o.model_text, "repo_root": REPO_ROOT,
                   "path_decisions": list(getattr(o, "path_labels", ()))}
        if o.kind == "vacuity":
            undecided.append(o)
            continue
        if o.status == "failed" or confirmed:
            if kf is not None and (confirmed or o.status == "failed"):
                known_hit.append((kf, o))
                json.dump(payload, open(rfile, "w"), indent=1, default=str)
                continue
            if confirmed:
                json.dump(payload, open(rfile, "w"), indent=1, default=str)
                violations.append((o, rfile, ""))
            elif o.name in baseline or o.status == "failed":
                # sat from the full VC (or an obligation that held on the baseline tree) without a replayable input
                json.dump(payload, open(rfile, "w"), indent=1, default=str)
                if o.status == "failed" and (o.name in baseline or not baseline):
                    violations.append((o, rfile, " no-failing-input-found"))
                else:
                    undecided.append(o)
            else:
                undecided.append(o)
        else:
            if kf is not None:
                # a listed finding whose obligation the solver left open and whose replay did not reproduce
                undecided.append(o)
            elif o.name in baseline and "candidate counter-model" in o.detail:
                # The obligation was discharged on the baseline tree; now every back end fails to prove it even with the
                # extended budget AND the finitely instantiated VC has a counter-model (attached). Reported as a violation
                # without a failing input (DESIGN.md section 4.2); plain `unknown` without a candidate stays undecided.
                payload["note"] = "discharged on the baseline tree; undischarged now with extended budget; candidate counter-model attached"
                json.dump(payload, open(rfile, "w"), indent=1, default=str)
                violations.append((o, rfile, " no-failing-input-found"))
            else:
                json.dump(payload, open(rfile, "w"), indent=1, default=str)
                undecided.append(o)

    # bounded / native stand-ins (real code, concrete scenarios): reported apart, never counted as discharged
    native_results = []
    for nname, nfn in getattr(m, "NATIVE", []):
        try:
            import contextlib
            import io
            with contextlib.redirect_stdout(io.StringIO()), contextlib.redirect_stderr(io.StringIO()):
                res = nfn()
        except Exception as e:
            res = {"ok": False, "observation": {"error": f"{type(e).__name__}: {e}", "trace": traceback.format_exc()[-600:]}}
        native_results.append((nname, res))
        if not res["ok"]:
            rfile = os.path.join(replay_dir, _safe(nname) + ".json")
            json.dump({"property": prop, "obligation": f"{prop}/{nname}", "kind": "bounded-native-scenario",
                       "replay": res["observation"], "repo_root": REPO_ROOT}, open(rfile, "w"), indent=1, default=str)
            o = Obligation(f"{prop}/{nname}", "bounded-native-scenario", "failed", "cpython", 0.0, "native", "scenario fails on the real code")
            violations.append((o, rfile, ""))

    printed = set()
    for kf, o in known_hit:
        if kf["id"] in printed:
            continue
        printed.add(kf["id"])
        print(f"KNOWN-FINDING: property={prop} {kf['what']}")
    vshown = {}
    for o, rfile, suffix in violations:
        vshown[o.name] = vshown.get(o.name, 0) + 1
        if vshown[o.name] > 2:
            continue
        print(f"VIOLATION property={prop} replay={rfile}{suffix}")
        print(f"  obligation {o.name} [{o.kind}] path={o.path_sig} {o.detail}")
    for nme, cnt in vshown.items():
        if cnt > 2:
            print(f"  ... obligation {nme}: {cnt - 2} more violating path(s), replay files in {replay_dir}")
    shown = {}
    for o in undecided:
        shown[o.name] = shown.get(o.name, 0) + 1
        if shown[o.name] <= 2:
            print(f"UNDECIDED property={prop} obligation={o.name} path={o.path_sig} status={o.status} {o.detail[:200]}")
    for nme, cnt in shown.items():
        if cnt > 2:
            print(f"UNDECIDED property={prop} obligation={nme} ... {cnt - 2} more path(s)")
    for r in not_verifiable:
        print(f"UNDECIDED property={prop} function={r.qualname} not verifiable: {r.reason[:300]}")
    for r in vacuous:
        print(f"UNDECIDED property={prop} function={r.qualname} vacuous: no feasible exit reached")
    unreached = [(r.qualname, u) for r in reports for u in getattr(r, "unreached", [])]
    for q, u in unreached:
        print(f"UNDECIDED property={prop} function={q} vacuous: {u} never reached on a satisfiable path")
    for c in crashed:
        print(f"CHECKER-ERROR property={prop} {c[:2000]}")

    names = sorted(by_name)
    discharged_names = [n for n in names if all(o.status == "discharged" for o in by_name[n])]
    kf_names = {o.name for _k, o in known_hit}
    if write_baseline:
        p = os.path.join(VERIF, "contracts", "baseline_obligations.json")
        data = json.load(open(p)) if os.path.exists(p) else {}
        data[prop] = discharged_names
        json.dump(data, open(p, "w"), indent=1, sort_keys=True)

    total_inst = len(inst)
    if total_inst == 0 and not crashed:
        crashed.append("zero obligations generated")
        print(f"CHECKER-ERROR property={prop} zero obligations generated")

    # ----------------------------------------------------------------------------------- evidence
    level = getattr(m, "LEVEL", "proof")
    try:
        man = json.load(open(os.path.join(VERIF, "MANIFEST.json")))
        for chk in man.get("checks", []):
            if chk["property_id"] == prop:
                level = chk["level_claimed"]["category"]
    except Exception:
        pass
    if level == "proof" and (kf_names or len(discharged_names) != len(names)):
        level = "other"      # a proof-level record requires every obligation discharged
    backends = {}
    for o in inst:
        backends.setdefault(o.backend, [0, 0.0])
        backends[o.backend][0] += 1
        backends[o.backend][1] += o.seconds
    samples = []
    for n in names[:6] + names[-3:]:
        o = by_name[n][0]
        samples.append({"obligation": n, "kind": o.kind, "status": o.status, "backend": o.backend,
                        "seconds": round(o.seconds, 4), "paths": len(by_name[n])})
    assumptions = sorted({a for r in reports for a in r.assumptions} | set(getattr(m, "ASSUMPTIONS", [])))
    n_obl = len(names)
    n_dis = len(discharged_names)
    explanation = getattr(m, "EXPLANATION", "")
    if kf_names:
        explanation += (f" NOTE: {len(kf_names)} obligation(s) fail on this tree and are listed known findings "
                        f"(counted apart, not discharged): {sorted(kf_names)}.")
    cov = {
        "obligations": n_obl, "discharged": n_dis,
        "checker_cmd": f"./check {prop} --tier {tier}",
        "trusted_base": sorted(set(getattr(m, "TRUSTED", [])) | {
            "pyvc executor encoding of Python semantics (DESIGN.md section 2)", "z3 5.1 / cvc5 1.0.3 / z3 4.8.12"}),
        "samples": samples,
        "explanation": explanation or f"contract verification of {len(targets)} function(s) for {prop}",
        "obligation_instances": total_inst,
        "known_finding_obligations": sorted(kf_names),
        "undecided": sorted({o.name for o in undecided}),
        "functions": [{"qualname": r.qualname, "file": r.file, "sha256": r.sha256, "status": r.status,
                       "reason": r.reason[:300], "paths": r.paths, "normal_exits": r.exits_normal,
                       "exceptional_exits": r.exits_exceptional, "feasible_exits": r.feasible_exits,
                       "dropped": r.dropped, "inlined": r.inlined, "callee_contracts_used": r.used_contracts,
                       "bounded": r.bounded, "seconds": round(r.seconds, 2),
                       "solver_seconds": round(r.solver_seconds, 2)} for r in reports],
        "solver_time_s": {k: round(v[1], 3) for k, v in backends.items()},
        "obligations_by_backend": {k: v[0] for k, v in backends.items()},
        "vacuity": {"functions_with_feasible_exit": sum(1 for r in reports if r.feasible_exits > 0),
                    "functions": len(reports)},
        "clauses": getattr(m, "CLAUSES", {}),
        "bounded": getattr(m, "BOUNDED", []) + [r.qualname for r in reports if r.bounded],
        "bounded_native_scenarios": [{"name": n, "ok": r["ok"]} for n, r in native_results],
        "exhaustive": False,
        "evaluations": total_inst, "distinct_nontrivial": max(n_obl, 0),
        "rule": "one evaluation = one obligation instance (obligation x path); distinct = distinct obligation names",
    }
    ev = {"property_id": prop, "tier": tier, "seed": seed, "level": level, "coverage": cov,
          "assumptions": assumptions, "wall_s": round(time.time() - t0, 2),
          "violations": len(violations) + len(kf_names)}
    os.makedirs(os.path.join(OUT, "evidence"), exist_ok=True)
    json.dump(ev, open(os.path.join(OUT, "evidence", f"{prop}.json"), "w"), indent=1, default=str)

    print(f"[{prop}] obligations={n_obl} discharged={n_dis} instances={total_inst} known-findings={len(printed)} "
          f"violations={len(violations)} undecided={len(undecided) + len(not_verifiable) + len(vacuous)} "
          f"wall={time.time() - t0:.1f}s")
    if crashed:
        return 3
    if violations:
        return 1
    if undecided or not_verifiable or vacuous or unreached:
        return 2
    return 0


def _safe(s):
    return "".join(c if c.isalnum() or c in "._-" else "_" for c in s)[-120:]
