"""SMT layer: the universal value sort, heap field sorts, and solver back ends (z3 5.x API, cvc5 CLI, z3 4.8 CLI)."""
from __future__ import annotations

import os
import subprocess
import tempfile
import time

import z3

z3.set_param("warning", False)
_V = z3.Datatype("Val")
_V.declare("VNone")
_V.declare("VBool", ("bv", z3.BoolSort()))
_V.declare("VInt", ("iv", z3.IntSort()))
_V.declare("VReal", ("rv", z3.RealSort()))
_V.declare("VStr", ("sv", z3.StringSort()))
_V.declare("VRef", ("rid", z3.IntSort()))
Val = _V.create()

INT = z3.IntSort()
BOOL = z3.BoolSort()
REAL = z3.RealSort()
STR = z3.StringSort()
ARR_IV = z3.ArraySort(INT, Val)          # Int -> Val
ARR_VB = z3.ArraySort(Val, BOOL)
ARR_VV = z3.ArraySort(Val, Val)
ARR_VI = z3.ArraySort(Val, INT)

NONE = Val.VNone
TRUE = Val.VBool(z3.BoolVal(True))
FALSE = Val.VBool(z3.BoolVal(False))

SPECIAL_FIELDS = {
    "$len": z3.ArraySort(INT, INT),
    "$items": z3.ArraySort(INT, ARR_IV),
    "$dhas": z3.ArraySort(INT, ARR_VB),
    "$dval": z3.ArraySort(INT, ARR_VV),
    "$dcnt": z3.ArraySort(INT, INT),
    "$dord": z3.ArraySort(INT, ARR_IV),
    "$dpos": z3.ArraySort(INT, ARR_VI),
    "$type": z3.ArraySort(INT, INT),
}


def field_sort(name: str):
    return SPECIAL_FIELDS.get(name, ARR_IV)


def mk_int(x):
    return Val.VInt(x if z3.is_expr(x) else z3.IntVal(x))


def mk_real(x):
    if not z3.is_expr(x):
        x = z3.RealVal(str(x))
    elif x.sort() == INT:
        x = z3.ToReal(x)
    return Val.VReal(x)


def mk_bool(x):
    return Val.VBool(x if z3.is_expr(x) else z3.BoolVal(bool(x)))


def mk_str(x):
    return Val.VStr(x if z3.is_expr(x) else z3.StringVal(x))


def mk_ref(x):
    return Val.VRef(x if z3.is_expr(x) else z3.IntVal(x))


def _peel(v, ctor):
    """iv(VInt(x)) -> x without calling the simplifier"""
    if z3.is_app(v) and v.num_args() == 1 and v.decl().name() == ctor:
        return v.arg(0)
    return None


def IV(v):
    p = _peel(v, "VInt")
    return p if p is not None else Val.iv(v)


def RV(v):
    p = _peel(v, "VReal")
    return p if p is not None else Val.rv(v)


def BV(v):
    p = _peel(v, "VBool")
    return p if p is not None else Val.bv(v)


def SVs(v):
    p = _peel(v, "VStr")
    return p if p is not None else Val.sv(v)


def RID(v):
    p = _peel(v, "VRef")
    return p if p is not None else Val.rid(v)


def is_numeric(v):
    return z3.Or(Val.is_VInt(v), Val.is_VReal(v), Val.is_VBool(v))


def num(v):
    """numeric value of a Val as Real (ints and bools coerced)"""
    p = _peel(v, "VInt")
    if p is not None:
        return z3.ToReal(p)
    p = _peel(v, "VReal")
    if p is not None:
        return p
    return z3.If(Val.is_VInt(v), z3.ToReal(Val.iv(v)),
                 z3.If(Val.is_VBool(v), z3.If(Val.bv(v), z3.RealVal(1), z3.RealVal(0)), Val.rv(v)))


def py_eq(a, b):
    """Python == on Val for primitives and identity objects (numeric cross-type aware)."""
    return z3.If(z3.And(is_numeric(a), is_numeric(b)), num(a) == num(b), a == b)


def simplify_bool(b):
    s = z3.simplify(b)
    if z3.is_true(s):
        return True
    if z3.is_false(s):
        return False
    return None


# ------------------------------------------------------------------------------------------ back ends
QUICK_TIMEOUT_MS = int(os.environ.get("PYVC_TIMEOUT_MS", "10000"))


class SolveResult:
    def __init__(self, status, backend, seconds, model=None, reason=""):
        self.status = status      # 'unsat' | 'sat' | 'unknown'
        self.backend = backend
        self.seconds = seconds
        self.model = model
        self.reason = reason


def _cli(cmd, smt2, timeout_s):
    with tempfile.NamedTemporaryFile("w", suffix=".smt2", delete=False, dir="/var/tmp") as f:
        f.write(smt2)
        path = f.name
    try:
        t = time.time()
        p = subprocess.run(cmd + [path], capture_output=True, text=True, timeout=timeout_s + 5)
        out = (p.stdout or "").strip().splitlines()
        status = out[0].strip() if out else "unknown"
        if status not in ("sat", "unsat"):
            status = "unknown"
        return status, time.time() - t
    except subprocess.TimeoutExpired:
        return "unknown", timeout_s
    finally:
        try:
            os.unlink(path)
        except OSError:
            pass


def uses_strings(formulas) -> bool:
    todo, seen = list(formulas), set()
    while todo:
        e = todo.pop()
        i = e.get_id()
        if i in seen:
            continue
        seen.add(i)
        if z3.is_app(e) and e.decl().kind() in (z3.Z3_OP_SEQ_CONCAT, z3.Z3_OP_SEQ_CONTAINS, z3.Z3_OP_SEQ_PREFIX,
                                                 z3.Z3_OP_SEQ_SUFFIX, z3.Z3_OP_SEQ_LENGTH, z3.Z3_OP_SEQ_INDEX,
                                                 z3.Z3_OP_SEQ_EXTRACT, z3.Z3_OP_SEQ_REPLACE, z3.Z3_OP_SEQ_IN_RE):
            return True
        if len(seen) > 30000:
            return False
        todo.extend(e.children())
    return False


def preprocess_smt2(assertions) -> str:
    s = z3.Solver()
    try:
        g = z3.Goal()
        for a in assertions:
            g.add(a)
        pre = z3.Then(z3.Tactic("simplify"), z3.Tactic("propagate-values"), z3.Tactic("solve-eqs"), z3.Tactic("simplify"))
        sub = pre(g)
        if len(sub) == 1:
            for a in sub[0]:
                s.add(a)
        else:
            for a in assertions:
                s.add(a)
    except z3.Z3Exception:
        s = z3.Solver()
        for a in assertions:
            s.add(a)
    return "(set-logic ALL)\n" + s.to_smt2()


def solve_cvc5(assertions, timeout_ms) -> SolveResult:
    t0 = time.time()
    st, sec = _cli(["/usr/bin/cvc5", "--strings-exp", f"--tlimit={timeout_ms}"], preprocess_smt2(assertions), timeout_ms / 1000)
    return SolveResult(st, "cvc5-1.0.3(cli)", time.time() - t0)


def solve_fallback(assertions, timeout_ms=None, want_model=True) -> SolveResult:
    """Fresh-solver cascade: z3 5.x (API) -> cvc5 (CLI) -> z3 4.8 (CLI). `unknown` only if all three give up."""
    timeout_ms = timeout_ms or QUICK_TIMEOUT_MS
    t0 = time.time()
    s = z3.Solver()
    s.set("timeout", timeout_ms)
    for a in assertions:
        s.add(a)
    r = s.check()
    if r == z3.unsat:
        return SolveResult("unsat", "z3-5.1(api,fresh)", time.time() - t0)
    if r == z3.sat:
        return SolveResult("sat", "z3-5.1(api,fresh)", time.time() - t0, s.model() if want_model else None)
    reason = s.reason_unknown()
    # the CLI back ends get the VC after z3's preprocessing (select-over-store, value propagation, equation solving):
    # the heap/datatype wrapping then mostly disappears and the string/arith core is what cvc5 sees
    try:
        g = z3.Goal()
        for a in assertions:
            g.add(a)
        pre = z3.Then(z3.Tactic("simplify"), z3.Tactic("propagate-values"), z3.Tactic("solve-eqs"), z3.Tactic("simplify"))
        sub = pre(g)
        if len(sub) == 1:
            s = z3.Solver()
            for a in sub[0]:
                s.add(a)
    except z3.Z3Exception:
        pass
    smt2 = "(set-logic ALL)\n" + s.to_smt2()
    st, sec = _cli(["/usr/bin/cvc5", "--strings-exp", f"--tlimit={timeout_ms}"], smt2, timeout_ms / 1000)
    if st in ("sat", "unsat"):
        return SolveResult(st, "cvc5-1.0.3(cli)", time.time() - t0, None, reason)
    st, sec = _cli(["/usr/bin/z3", f"-T:{max(1, timeout_ms // 1000)}"], s.to_smt2(), timeout_ms / 1000)
    if st in ("sat", "unsat"):
        return SolveResult(st, "z3-4.8.12(cli)", time.time() - t0, None, reason)
    return SolveResult("unknown", "all", time.time() - t0, None, reason)


# ------------------------------------------------------------------------ finite instantiation (model search)
def _ground_index_terms(formulas, limit=14):
    """ground terms used as indices of `select`, by sort name"""
    out = {}
    seen = set()
    todo = list(formulas)
    while todo:
        e = todo.pop()
        i = e.get_id()
        if i in seen:
            continue
        seen.add(i)
        if z3.is_quantifier(e):
            continue          # terms under binders may mention bound variables
        if z3.is_app(e):
            if e.decl().kind() == z3.Z3_OP_SELECT and e.num_args() == 2:
                idx = e.arg(1)
                out.setdefault(idx.sort().name(), {})[idx.get_id()] = idx
            todo.extend(e.children())
    return {k: list(v.values())[:limit] for k, v in out.items()}


def _instantiate(f, pools, depth=0):
    """replace positive universal quantifiers by finite conjunctions over `pools` (sort name -> terms)"""
    if z3.is_quantifier(f) and f.is_forall():
        nv = f.num_vars()
        sorts = [f.var_sort(i) for i in range(nv)]
        cands = []
        for s in sorts:
            pool = list(pools.get(s.name(), []))
            if s.name() == "Int":
                pool = pool + [z3.IntVal(k) for k in range(0, 3)]
            if not pool:
                # no ground term of this sort to instantiate with: the assumption is dropped (weaker assumptions: still sound for
                # `unsat => discharged`; a `sat` answer is only a CANDIDATE model, confirmed by native replay or not at all)
                return z3.BoolVal(True)
            cands.append(pool)
        total = 1
        for c in cands:
            total *= len(c)
        if total > 400:
            cands = [c[:max(2, int(400 ** (1.0 / nv)))] for c in cands]
        body = f.body()
        insts = []
        import itertools
        for combo in itertools.product(*cands):
            # de Bruijn: variable 0 is the LAST bound variable
            inst = z3.substitute_vars(body, *reversed(combo))
            insts.append(_instantiate(inst, pools, depth + 1) if depth < 2 else inst)
        return z3.And(insts) if insts else z3.BoolVal(True)
    if z3.is_app(f):
        k = f.decl().kind()
        if k == z3.Z3_OP_AND:
            return z3.And([_instantiate(c, pools, depth) for c in f.children()])
        if k == z3.Z3_OP_IMPLIES:
            return z3.Implies(f.arg(0), _instantiate(f.arg(1), pools, depth))
        if k == z3.Z3_OP_OR:
            return z3.Or([_instantiate(c, pools, depth) for c in f.children()])
    return f


def candidate_model(pc, neg_goal, timeout_ms=5000):
    """Counter-model CANDIDATE: universally quantified assumptions are replaced by their instances over the ground index
    terms of the query (plus 0,1,2). Only ever used as an input for native replay."""
    try:
        pools = _ground_index_terms(list(pc) + [neg_goal])
        s = z3.Solver()
        s.set("timeout", timeout_ms)
        for a in pc:
            s.add(_instantiate(a, pools))
        s.add(neg_goal)
        r = s.check()
        if r == z3.sat:
            return "sat", s.model()
        return str(r), None
    except z3.Z3Exception as e:
        return "error:" + str(e)[:100], None
