"""Symbolic executor over the real function ASTs — expression part and shared helpers.

Decision-replay style: a path is executed by a plain recursive interpreter; every branching point goes through
State.branch, which replays a recorded prefix and registers the untaken feasible alternatives for later runs.
"""
from __future__ import annotations

import ast

import z3

from .repo import Repo, Ty, parse_ann, ClassInfo, FuncInfo, ModuleInfo
from .smt import (IV, RV, BV, SVs, RID, Val, INT, NONE, TRUE, FALSE, mk_int, mk_real, mk_bool, mk_str, mk_ref, num, is_numeric, py_eq,
                  simplify_bool)
from .state import SV, State, Unsupported, PyRaise, PathEnd, ReturnEx, BreakEx, ContinueEx
from . import heapops as H

LOGGER_NAMES = {"logger", "frontend_logger", "logging", "tracer", "log", "aggregator_logger"}

BUILTIN_EXC = {
    "BaseException": None, "Exception": "BaseException", "ArithmeticError": "Exception",
    "ZeroDivisionError": "ArithmeticError", "AssertionError": "Exception", "AttributeError": "Exception",
    "LookupError": "Exception", "KeyError": "LookupError", "IndexError": "LookupError",
    "NotImplementedError": "RuntimeError", "RuntimeError": "Exception", "RecursionError": "RuntimeError",
    "StopIteration": "Exception", "TypeError": "Exception", "ValueError": "Exception",
    "UnicodeError": "ValueError", "OSError": "Exception", "TimeoutError": "OSError", "ConnectionError": "OSError",
    "KeyboardInterrupt": "BaseException", "GeneratorExit": "BaseException", "CancelledError": "BaseException",
    "HTTPException": "Exception", "ValidationError": "ValueError", "InvalidOperation": "ArithmeticError",
    "Empty": "Exception", "DimensionalityError": "TypeError", "UndefinedUnitError": "AttributeError",
}


def _forall_pat(vs, body, pat):
    try:
        return z3.ForAll(vs, body, patterns=[pat])
    except z3.Z3Exception:
        return z3.ForAll(vs, body)


class Frame:
    top_contract = None        # contract of the function under verification (field type hints apply to inlined callees too)

    def __init__(self, func: FuncInfo | None, module: ModuleInfo, contract=None, parent_env=None):
        self.func = func
        self.module = module
        self.contract = contract
        self.locals: dict[str, SV] = {}
        self.parent_env = parent_env          # enclosing Frame for closures
        self.entry_heap = None
        self.entry_alloc = None
        self.entry_locals = None
        self.pre_stack = []                   # iteration-start snapshots (heap, locals)
        self.loop_seen = {}
        self.yield_count = 0
        self.inline_depth = 0

    def lookup(self, name):
        f = self
        while f is not None:
            if name in f.locals:
                return f.locals[name]
            f = f.parent_env
        return None

    def hint(self, name):
        f = self
        while f is not None:
            if f.contract is not None and name in f.contract.types:
                return parse_ann(f.contract.types[name])
            f = f.parent_env
        if Frame.top_contract is not None and name in Frame.top_contract.types and "." in name:
            return parse_ann(Frame.top_contract.types[name])
        return None


class ExecutorBase:
    def __init__(self, repo: Repo, contracts: dict, prop_id: str = ""):
        self.repo = repo
        self.contracts = contracts            # qualname -> Contract
        self.prop_id = prop_id
        self.st: State | None = None
        self.pure = 0                         # >0: spec / quantifier-body evaluation (no branching)
        self.qdepth = 0                       # >0: inside a quantifier body (bound variables in scope)
        self.defs = []                        # definedness side conditions collected in pure mode
        self.dropped = set()                  # constructs dropped by the front end (reported)
        self.assumptions = set()
        self.inlined = set()
        self.used_contracts = set()
        self.old_mode = None                  # (heap, locals) while evaluating old(...)/pre(...)
        self.spec_env = {}
        self._enum_cache = {}
        self.reach = {}                       # vacuity canaries: label -> number of feasible arrivals

    # ------------------------------------------------------------------------------------ small helpers
    def fresh_sv(self, base, ty: Ty | None) -> SV:
        if ty is not None and not ty.nullable and ty.name in ("int", "float", "str", "bool"):
            # primitives are created unboxed-then-boxed: no datatype tester needed by the solvers
            st = self.st
            if ty.name == "int":
                return SV(mk_int(st.fresh(base, INT)), ty)
            if ty.name == "float":
                return SV(mk_real(st.fresh(base, z3.RealSort())), ty)
            if ty.name == "str":
                return SV(mk_str(st.fresh(base, z3.StringSort())), ty)
            return SV(mk_bool(st.fresh(base, z3.BoolSort())), ty)
        t = self.st.fresh_val(base)
        self.assume_type(t, ty)
        return SV(t, ty)

    def norm_ty(self, ty: Ty | None):
        """resolve module-level type aliases (TagValueType = int | float | str | None)"""
        if ty is None or ty.name in ("int", "float", "bool", "str", "none", "list", "dict", "set", "tuple", "any", "num"):
            return ty
        if self.repo.resolve_class(ty.name) is None:
            al = self.repo.alias_type(ty.name)
            if al is not None:
                return al.with_nullable(al.nullable or ty.nullable)
        return ty

    def cls_of(self, ty: Ty | None, fr: Frame | None = None) -> ClassInfo | None:
        if ty is None or ty.name in ("int", "float", "bool", "str", "none", "list", "dict", "set", "tuple", "any",
                                     "num", "callable", "generator", "self"):
            return None
        return self.repo.resolve_class(ty.name, fr.module if fr else None)

    def enum_member(self, ci: ClassInfo, name: str) -> SV | None:
        members = self.enum_members(ci)
        return members.get(name)

    def enum_members(self, ci: ClassInfo) -> dict:
        key = ci.module.name + ":" + ci.name
        if key in self._enum_cache:
            return self._enum_cache[key]
        out = {}
        idx = 0
        is_str, is_flag = ci.is_strenum(self.repo), ci.is_flag(self.repo)
        flagval = 1
        for c in reversed(ci.mro(self.repo)):
            for st_ in c.node.body:
                tgt = None
                if isinstance(st_, ast.Assign) and len(st_.targets) == 1 and isinstance(st_.targets[0], ast.Name):
                    tgt, val = st_.targets[0].id, st_.value
                if tgt is None or tgt.startswith("_"):
                    continue
                idx += 1
                if is_str:
                    if isinstance(val, ast.Constant) and isinstance(val.value, str):
                        s = val.value
                    else:
                        s = tgt.lower()
                    out[tgt] = SV(mk_str(s), Ty(ci.name))
                elif is_flag:
                    if isinstance(val, ast.Call):
                        v = flagval
                        flagval *= 2
                    elif isinstance(val, ast.Constant):
                        v = val.value
                    elif isinstance(val, ast.BinOp):
                        v = 0
                        for n in ast.walk(val):
                            if isinstance(n, ast.Name) and n.id in out:
                                v |= out[n.id].meta
                    else:
                        v = flagval
                    out[tgt] = SV(mk_int(v), Ty(ci.name), v)
                else:
                    out[tgt] = SV(mk_ref(-(ci.cid * 1000 + idx)), Ty(ci.name))
        self._enum_cache[key] = out
        return out

    def assume_type(self, term, ty: Ty | None, fr: Frame | None = None, _depth=0):
        """Type invariants of annotated values are assumptions (A-TYPES)."""
        if ty is None or term is None or self.qdepth:
            return
        st = self.st
        c = None
        n = ty.name
        if n == "int":
            c = Val.is_VInt(term)
        elif n == "float":
            c = Val.is_VReal(term)
        elif n == "num":
            c = z3.Or(Val.is_VInt(term), Val.is_VReal(term))
        elif n == "bool":
            c = Val.is_VBool(term)
        elif n == "str":
            c = Val.is_VStr(term)
        elif n == "none":
            c = Val.is_VNone(term)
        elif n in ("list", "dict", "set", "tuple", "callable", "generator"):
            c = z3.And(Val.is_VRef(term), RID(term) >= 0, RID(term) < st.alloc)
            if n in ("list", "tuple"):
                st.assume(z3.Implies(Val.is_VRef(term), H.list_len(st, RID(term)) >= 0))
            if n == "list" and ty.args and _depth < 1 and not type(st).qf_mode:
                # container typing: every element satisfies the element type (A-TYPES, re-assumed at each read)
                j = z3.Int("ty!j")
                el = z3.Select(st.read("$items", RID(term)), j)
                ep = self.type_pred(el, ty.args[0], fr, _depth + 1)
                if not z3.is_true(ep):
                    st.assume(z3.Implies(Val.is_VRef(term),
                                         _forall_pat([j], z3.Implies(z3.And(0 <= j, j < H.list_len(st, RID(term))), ep), el)))
            if n == "dict" and len(ty.args) == 2 and _depth < 1 and not type(st).qf_mode:
                k = z3.Const("ty!k", Val)
                el = z3.Select(st.read("$dval", RID(term)), k)
                ep = z3.And(self.type_pred(el, ty.args[1], fr, _depth + 1), self.type_pred(k, ty.args[0], fr, _depth + 1))
                if not z3.is_true(z3.simplify(ep)):
                    st.assume(z3.Implies(Val.is_VRef(term),
                                         z3.ForAll([k], z3.Implies(z3.Select(st.read("$dhas", RID(term)), k), ep))))
            if n == "set" and len(ty.args) == 1 and _depth < 1 and not type(st).qf_mode:
                k = z3.Const("ty!k", Val)
                ep = self.type_pred(k, ty.args[0], fr, _depth + 1)
                if not z3.is_true(z3.simplify(ep)):
                    st.assume(z3.Implies(Val.is_VRef(term),
                                         z3.ForAll([k], z3.Implies(z3.Select(st.read("$dhas", RID(term)), k), ep))))
        elif n in ("any", "self"):
            c = None
        else:
            ci = self.repo.resolve_class(n, fr.module if fr else None)
            if ci is None:
                al = self.repo.alias_type(n)
                if al is not None:
                    self.assume_type(term, al.with_nullable(al.nullable or ty.nullable), fr, _depth)
                return          # unknown / external class: no constraint
            if ci is not None and ci.is_enum(self.repo):
                mem = self.enum_members(ci)
                if ci.is_flag(self.repo):
                    top = 0
                    for m in mem.values():
                        top |= m.meta
                    c = z3.And(Val.is_VInt(term), IV(term) >= 0, IV(term) <= top)
                elif mem:
                    c = z3.Or([term == m.term for m in mem.values()])
            else:
                c = z3.And(Val.is_VRef(term), RID(term) >= 0, RID(term) < st.alloc)
                if ci is not None:
                    subs = self.repo.subclasses(ci)
                    if 0 < len(subs) <= 16:
                        c = z3.And(c, z3.Or([st.read("$type", RID(term)) == s.cid for s in subs]))
        if c is None:
            return
        if ty.nullable:
            c = z3.Or(Val.is_VNone(term), c)
        st.assume(c)

    def truthy(self, sv: SV):
        t, ty = sv.term, sv.ty
        if t is None:
            return z3.BoolVal(True)
        n = ty.name if ty else None
        base = None
        if n == "bool":
            base = BV(t)
        elif n == "int":
            base = IV(t) != 0
        elif n == "float":
            base = RV(t) != 0
        elif n == "str":
            base = z3.Length(SVs(t)) > 0
        elif n == "none":
            return z3.BoolVal(False)
        elif n in ("list", "tuple"):
            base = H.list_len(self.st, RID(t)) > 0
        elif n in ("dict", "set"):
            base = self.st.read("$dcnt", RID(t)) > 0
        elif n is not None and n not in ("any", "num"):
            base = z3.BoolVal(True)
        if base is not None:
            if ty.nullable:
                return z3.And(z3.Not(Val.is_VNone(t)), base)
            return base
        return z3.If(Val.is_VBool(t), BV(t),
                     z3.If(Val.is_VNone(t), False,
                           z3.If(Val.is_VInt(t), IV(t) != 0,
                                 z3.If(Val.is_VReal(t), RV(t) != 0,
                                       z3.If(Val.is_VStr(t), z3.Length(SVs(t)) > 0, True)))))

    def raise_if(self, cond, exc, label=""):
        """Implicit raise of a builtin exception when cond holds (exec mode: branch; pure mode: side condition)."""
        if self.pure:
            self.defs.append(z3.Not(cond))
            return
        sb = simplify_bool(cond)
        if sb is False:
            return
        if self.st.decide(cond, label or exc):
            raise PyRaise(exc, None, label)

    def exc_is_subclass(self, cls: str, base: str) -> bool:
        if cls == base or base in ("BaseException",):
            return True
        if base == "Exception" and cls not in ("KeyboardInterrupt", "GeneratorExit", "CancelledError", "BaseException"):
            return True
        c = cls
        seen = set()
        while c and c not in seen:
            seen.add(c)
            if c == base:
                return True
            if c in BUILTIN_EXC:
                c = BUILTIN_EXC[c]
                continue
            ci = self.repo.resolve_class(c)
            if ci is None:
                return False
            names = ci.all_base_names(self.repo)
            if base in names:
                return True
            # climb through builtin bases
            for b in names:
                if b in BUILTIN_EXC and b != c and self.exc_is_subclass(b, base):
                    return True
            return False
        return False

    # ---------------------------------------------------------------------------------- expressions
    def ev(self, node, fr: Frame) -> SV:
        m = getattr(self, "ev_" + type(node).__name__, None)
        if m is None:
            raise Unsupported(f"expression {type(node).__name__}: {ast.unparse(node)[:80]}")
        return m(node, fr)

    def ev_Constant(self, node, fr):
        v = node.value
        if v is None:
            return SV(NONE, Ty("none"))
        if isinstance(v, bool):
            return SV(mk_bool(v), Ty("bool"))
        if isinstance(v, int):
            return SV(mk_int(v), Ty("int"))
        if isinstance(v, float):
            return SV(mk_real(repr(v)), Ty("float"))
        if isinstance(v, str):
            return SV(mk_str(v), Ty("str"))
        if v is Ellipsis:
            return SV(NONE, Ty("none"))
        raise Unsupported(f"constant {v!r}")

    def ev_Name(self, node, fr):
        name = node.id
        if self.old_mode is not None and name in self.old_mode[1]:
            f = fr
            while f is not None and name not in f.locals:
                f = f.parent_env
            if f is not None and f is self.old_mode[2]:
                return self.old_mode[1][name]
        sv = fr.lookup(name)
        if sv is not None:
            return sv
        if name in self.spec_env:
            return self.spec_env[name]
        al = getattr(self, "name_alias", None)
        if al and name in al:
            sv = fr.lookup(al[name])        # a loop target renamed in the code: the contract's old name denotes the new variable
            if sv is not None:
                return sv
        return self.resolve_global(name, fr.module)

    def resolve_global(self, name, module: ModuleInfo) -> SV:
        kind, obj = self.repo.resolve_in_module(module, name)
        if kind == "class":
            return SV(None, Ty("class"), ("class", obj))
        if kind == "func":
            return SV(None, Ty("callable"), ("func", obj))
        if kind == "module":
            return SV(None, Ty("module"), ("module", obj))
        if kind == "const":
            mi, expr = obj
            return self.ev(expr, Frame(None, mi))
        if name in ("True", "False", "None"):
            return self.ev_Constant(ast.Constant({"True": True, "False": False, "None": None}[name]), None)
        if kind == "external":
            dotted = obj
            if name in module.imports:
                dotted = module.imports[name]
            elif name not in module.imports:
                import builtins as _b
                if not hasattr(_b, name):
                    # neither a local, a module-level name, an import nor a builtin: e.g. a contract text naming a local variable that the
                    # function no longer has (renamed). Never guessed: the function is reported as not verifiable (undecided).
                    raise Unsupported(f"unknown name `{name}` (a contract may refer to a local variable that no longer exists)")
                dotted = name  # builtin
            return SV(None, Ty("ext"), ("ext", dotted))
        raise Unsupported(f"name {name}")

    def ev_JoinedStr(self, node, fr):
        parts = []
        ok = True
        for v in node.values:
            if isinstance(v, ast.Constant):
                parts.append(z3.StringVal(v.value))
            elif isinstance(v, ast.FormattedValue) and v.format_spec is None and v.conversion == -1:
                try:
                    sv = self.ev(v.value, fr)
                except Unsupported:
                    ok = False
                    break
                if sv.ty is not None and sv.ty.name == "str" and not sv.ty.nullable:
                    parts.append(SVs(sv.term))
                elif sv.term is not None:
                    parts.append(self.str_of(sv))
                else:
                    ok = False
                    break
            else:
                ok = False
                break
        if not ok:
            self.dropped.add("f-string value (opaque string)")
            return SV(mk_str(self.st.fresh("fstr", z3.StringSort())), Ty("str"))
        if not parts:
            return SV(mk_str(""), Ty("str"))
        return SV(mk_str(z3.Concat(*parts) if len(parts) > 1 else parts[0]), Ty("str"))

    def str_of(self, sv: SV):
        """str(x) as a z3 String: exact for str, decimal for int, uninterpreted otherwise."""
        if sv.ty is not None and sv.ty.name == "str" and not sv.ty.nullable:
            return SVs(sv.term)
        f = z3.Function("str_of", Val, z3.StringSort())
        if sv.ty is not None and sv.ty.name == "int":
            return z3.IntToStr(IV(sv.term)) if False else f(sv.term)
        return z3.If(Val.is_VStr(sv.term), SVs(sv.term), f(sv.term))

    def ev_List(self, node, fr):
        if any(isinstance(e, ast.Starred) for e in node.elts):
            raise Unsupported("starred list literal")
        elems = [self.ev(e, fr) for e in node.elts]
        ety = elems[0].ty if elems and all(e.ty == elems[0].ty for e in elems) else None
        return H.list_new(self.st, [self.need_term(e) for e in elems], ty=Ty("list", (ety,) if ety else ()))

    def ev_Tuple(self, node, fr):
        elems = [self.ev(e, fr) for e in node.elts]
        sv = H.list_new(self.st, [self.need_term(e) for e in elems],
                        ty=Ty("tuple", tuple(e.ty or Ty("any") for e in elems)))
        sv.meta = ("tuple", elems)
        return sv

    def ev_Dict(self, node, fr):
        d = H.dict_new(self.st)
        kt = vt = None
        for k, v in zip(node.keys, node.values):
            if k is None:
                raise Unsupported("dict unpacking literal")
            ksv, vsv = self.ev(k, fr), self.ev(v, fr)
            H.dict_set(self.st, H.rid(d), self.need_term(ksv), self.need_term(vsv))
            kt, vt = ksv.ty, vsv.ty
        d.ty = Ty("dict", (kt or Ty("any"), vt or Ty("any")))
        return d

    def ev_Set(self, node, fr):
        d = H.dict_new(self.st, Ty("set"))
        for e in node.elts:
            sv = self.ev(e, fr)
            H.dict_set(self.st, H.rid(d), self.need_term(sv), TRUE)
        return d

    def need_term(self, sv: SV):
        if sv.term is not None:
            return sv.term
        if sv.meta is not None:
            kind = sv.meta[0]
            if kind == "class":
                return mk_ref(-(sv.meta[1].cid))
            if kind in ("func", "bound", "lambda", "ext", "extbound", "builtin"):
                # first-class callables are opaque references
                key = ("callable", ast.dump(sv.meta[1]) if isinstance(sv.meta[1], ast.AST) else str(sv.meta[1:3]))
                h = abs(hash(key)) % 10**6
                return mk_ref(-(10**7 + h))
        raise Unsupported("value without term")

    def ev_IfExp(self, node, fr):
        c = self.ev(node.test, fr)
        tc = self.truthy(c)
        if self.pure:
            a, b = self.ev(node.body, fr), self.ev(node.orelse, fr)
            ty = a.ty if a.ty == b.ty else (a.ty.with_nullable() if a.ty and b.ty and b.ty.name == "none" else
                                            (b.ty.with_nullable() if a.ty and b.ty and a.ty.name == "none" else None))
            return SV(z3.If(tc, a.term, b.term), ty)
        if self.st.decide(tc, "ifexp:" + ast.unparse(node.test)[:40]):
            return self.ev(node.body, fr)
        return self.ev(node.orelse, fr)

    def ev_BoolOp(self, node, fr):
        is_and = isinstance(node.op, ast.And)
        if self.pure:
            ts = [self.truthy(self.ev(v, fr)) for v in node.values]
            return SV(mk_bool(z3.And(ts) if is_and else z3.Or(ts)), Ty("bool"))
        cur = None
        for k, v in enumerate(node.values):
            cur = self.ev(v, fr)
            if k == len(node.values) - 1:
                return cur
            t = self.truthy(cur)
            if self.st.decide(t, "boolop:" + ast.unparse(v)[:40]):
                if not is_and:
                    return cur
            else:
                if is_and:
                    return cur
        return cur

    def ev_UnaryOp(self, node, fr):
        v = self.ev(node.operand, fr)
        if isinstance(node.op, ast.Not):
            return SV(mk_bool(z3.Not(self.truthy(v))), Ty("bool"))
        if isinstance(node.op, ast.USub):
            if v.ty and v.ty.name == "int":
                return SV(mk_int(-IV(v.term)), Ty("int"))
            if v.ty and v.ty.name == "float":
                return SV(mk_real(-RV(v.term)), Ty("float"))
            return SV(z3.If(Val.is_VInt(v.term), mk_int(-IV(v.term)), mk_real(-num(v.term))), Ty("num"))
        if isinstance(node.op, ast.UAdd):
            return v
        raise Unsupported("unary op")

    def ev_BinOp(self, node, fr):
        a, b = self.ev(node.left, fr), self.ev(node.right, fr)
        return self.binop(node.op, a, b, node)

    def binop(self, op, a: SV, b: SV, node=None) -> SV:
        an = a.ty.name if a.ty and not a.ty.nullable else None
        bn = b.ty.name if b.ty and not b.ty.nullable else None
        if isinstance(op, ast.Add) and an == "str" and bn == "str":
            return SV(mk_str(z3.Concat(SVs(a.term), SVs(b.term))), Ty("str"))
        if isinstance(op, ast.Add) and an in ("list", "tuple") and bn in ("list", "tuple"):
            return self.list_concat(a, b)
        if isinstance(op, (ast.BitAnd, ast.BitOr, ast.Sub)) and an == "set" and bn == "set":
            st = self.st
            out = H.dict_new(st, a.ty)
            o = H.rid(out)
            ha, hb = st.read("$dhas", H.rid(a)), st.read("$dhas", H.rid(b))
            k = z3.Const("so!k", Val)
            comb = {ast.BitAnd: lambda x, y: z3.And(x, y), ast.BitOr: lambda x, y: z3.Or(x, y),
                    ast.Sub: lambda x, y: z3.And(x, z3.Not(y))}[type(op)]
            nh = st.fresh("sethas", ha.sort())
            st.assume(z3.ForAll([k], z3.Select(nh, k) == comb(z3.Select(ha, k), z3.Select(hb, k))))
            st.write("$dhas", o, nh)
            for f in ("$dcnt", "$dord", "$dpos"):
                st.write(f, o, st.fresh("set" + f[1:], st.read(f, o).sort()))
            st.assume(H.dict_wf(st, o))
            return out
        if isinstance(op, ast.Mult) and {an, bn} == {"list", "int"}:
            # list repetition: exact for a one-element list (the only form met so far); a non-positive count gives []
            lst, cnt = (a, b) if an == "list" else (b, a)
            st = self.st
            rl = H.rid(lst)
            if simplify_bool(H.list_len(st, rl) == 1) is not True and st.feasible(H.list_len(st, rl) != 1):
                raise Unsupported("list repetition of a list that is not known to have exactly one element")
            n = z3.If(IV(cnt.term) > 0, IV(cnt.term), 0)
            out = H.list_new(st, None, n, ty=lst.ty)
            j = z3.Int(st.fresh_name("j"))
            st.assume(z3.ForAll([j], z3.Implies(z3.And(0 <= j, j < n), H.list_get(st, H.rid(out), j) == H.list_get(st, rl, 0))))
            return out
        if isinstance(op, ast.Mod) and an == "str":
            self.dropped.add("%-format string value (opaque string)")
            return SV(mk_str(self.st.fresh("fstr", z3.StringSort())), Ty("str"))
        if an == "int" and bn == "int":
            x, y = IV(a.term), IV(b.term)
            if isinstance(op, ast.Add):
                return SV(mk_int(x + y), Ty("int"))
            if isinstance(op, ast.Sub):
                return SV(mk_int(x - y), Ty("int"))
            if isinstance(op, ast.Mult):
                return SV(mk_int(x * y), Ty("int"))
            if isinstance(op, (ast.FloorDiv, ast.Mod)):
                self.raise_if(y == 0, "ZeroDivisionError")
                q = z3.If(y > 0, x / y, -((-x) / (-y)) if False else (x / y))
                # z3 integer division is Euclidean; it coincides with Python floor division for y > 0.
                if simplify_bool(y > 0) is not True:
                    self.assumptions.add("A-DIV: integer // and % evaluated for positive divisors only")
                    self.st.assume(y > 0)
                if isinstance(op, ast.FloorDiv):
                    return SV(mk_int(x / y), Ty("int"))
                return SV(mk_int(x % y), Ty("int"))
            if isinstance(op, ast.Div):
                self.raise_if(y == 0, "ZeroDivisionError")
                return SV(mk_real(z3.ToReal(x) / z3.ToReal(y)), Ty("float"))
            if isinstance(op, (ast.BitOr, ast.BitAnd)):
                f = z3.Function("bitor" if isinstance(op, ast.BitOr) else "bitand", INT, INT, INT)
                return SV(mk_int(f(x, y)), Ty("int"))
        if an in ("int", "float", "num", "bool") and bn in ("int", "float", "num", "bool"):
            x, y = num(a.term), num(b.term)
            if an == "float":
                x = RV(a.term)
            if bn == "float":
                y = RV(b.term)
            self.assumptions.add("A-REAL: float arithmetic modelled over the reals")
            if isinstance(op, ast.Add):
                return SV(mk_real(x + y), Ty("float"))
            if isinstance(op, ast.Sub):
                return SV(mk_real(x - y), Ty("float"))
            if isinstance(op, ast.Mult):
                return SV(mk_real(x * y), Ty("float"))
            if isinstance(op, ast.Div):
                self.raise_if(y == 0, "ZeroDivisionError")
                return SV(mk_real(x / y), Ty("float"))
        if a.term is not None and b.term is not None and isinstance(op, (ast.Add, ast.Sub, ast.Mult)):
            # unknown static types: numeric interpretation (strings/lists with + need static types)
            x, y = num(a.term), num(b.term)
            both_int = z3.And(Val.is_VInt(a.term), Val.is_VInt(b.term))
            self.assumptions.add("A-REAL: float arithmetic modelled over the reals")
            self.assumptions.add("A-NUMOP: untyped +,-,* interpreted numerically")
            if isinstance(op, ast.Add):
                return SV(z3.If(both_int, mk_int(IV(a.term) + IV(b.term)), mk_real(x + y)), Ty("num"))
            if isinstance(op, ast.Sub):
                return SV(z3.If(both_int, mk_int(IV(a.term) - IV(b.term)), mk_real(x - y)), Ty("num"))
            return SV(z3.If(both_int, mk_int(IV(a.term) * IV(b.term)), mk_real(x * y)), Ty("num"))
        raise Unsupported(f"binop {type(op).__name__} on {a.ty} / {b.ty}: {ast.unparse(node)[:60] if node else ''}")

    def list_concat(self, a: SV, b: SV) -> SV:
        st = self.st
        ra, rb = H.rid(a), H.rid(b)
        la, lb = H.list_len(st, ra), H.list_len(st, rb)
        out = H.list_new(st, None, la + lb, ty=a.ty)
        ro = H.rid(out)
        j = z3.Int(st.fresh_name("j"))
        st.assume(z3.ForAll([j], z3.Implies(z3.And(0 <= j, j < la), H.list_get(st, ro, j) == H.list_get(st, ra, j))))
        st.assume(z3.ForAll([j], z3.Implies(z3.And(0 <= j, j < lb), H.list_get(st, ro, la + j) == H.list_get(st, rb, j))))
        # same fact keyed on the position in the result (a pattern `out[la + j]` never matches a plain index term)
        st.assume(_forall_pat([j], z3.Implies(z3.And(la <= j, j < la + lb), H.list_get(st, ro, j) == H.list_get(st, rb, j - la)),
                              H.list_get(st, ro, j)))
        return out

    # ------------------------------------------------------------------------------------ comparisons
    def ev_Compare(self, node, fr):
        # `len([e for x in xs if c]) > 0` inside a quantified context: exactly `any(c for x in xs)` (a filter comprehension cannot
        # be axiomatised under a binder; the list itself is not otherwise observable)
        if self.pure and len(node.ops) == 1 and isinstance(node.ops[0], ast.Gt) and isinstance(node.comparators[0], ast.Constant) \
                and node.comparators[0].value == 0 and isinstance(node.left, ast.Call) and isinstance(node.left.func, ast.Name) \
                and node.left.func.id == "len" and len(node.left.args) == 1 and isinstance(node.left.args[0], ast.ListComp) \
                and len(node.left.args[0].generators) == 1:
            lc = node.left.args[0]
            ge = ast.GeneratorExp(elt=ast.Constant(value=True), generators=lc.generators)
            return self.quantified_genexp("any", ge, fr)
        left = self.ev(node.left, fr)
        res = []
        for op, rn in zip(node.ops, node.comparators):
            right = self.ev(rn, fr)
            res.append(self.compare(op, left, right, node))
            left = right
        if len(res) == 1:
            return SV(mk_bool(res[0]), Ty("bool"))
        return SV(mk_bool(z3.And(res)), Ty("bool"))

    def eq_terms(self, a: SV, b: SV):
        if a.term is None or b.term is None:
            if a.meta is not None and b.meta is not None:
                return z3.BoolVal(a.meta == b.meta)
            return self.need_term(a) == self.need_term(b)
        an = a.ty.name if a.ty else None
        bn = b.ty.name if b.ty else None
        prim = ("str", "bool", "none")
        nn = lambda x: x.ty is not None and not x.ty.nullable
        if an == bn and nn(a) and nn(b):
            if an == "int":
                return IV(a.term) == IV(b.term)
            if an == "float":
                return RV(a.term) == RV(b.term)
            if an == "str":
                return SVs(a.term) == SVs(b.term)
            if an == "bool":
                return BV(a.term) == BV(b.term)
        if an in prim or bn in prim:
            return a.term == b.term
        if an in ("int", "float", "num") or bn in ("int", "float", "num") or an is None or bn is None \
                or an == "any" or bn == "any":
            for s in (a, b):
                if s.ty and s.ty.name in ("list", "tuple", "dict", "set"):
                    raise Unsupported("structural equality on containers")
            return py_eq(a.term, b.term)
        if an in ("list", "tuple", "dict", "set"):
            if self.pure and an in ("list", "tuple") and bn in ("list", "tuple"):
                return self.list_eq(a, b)
            raise Unsupported("structural equality on containers")
        ci = self.cls_of(a.ty)
        if ci is not None and not ci.is_enum(self.repo):
            if ci.find_method(self.repo, "__eq__") is not None or (ci.is_pydantic(self.repo) or ci.is_dataclass):
                if not (bn == "none"):
                    raise Unsupported(f"== on {ci.name} (structural / user-defined equality)")
        return a.term == b.term

    def list_eq(self, a, b):
        st = self.st
        ra, rb = H.rid(a), H.rid(b)
        j = z3.Int(st.fresh_name("j"))
        return z3.And(H.list_len(st, ra) == H.list_len(st, rb),
                      z3.ForAll([j], z3.Implies(z3.And(0 <= j, j < H.list_len(st, ra)),
                                                H.list_get(st, ra, j) == H.list_get(st, rb, j))))

    def compare(self, op, a: SV, b: SV, node=None):
        if isinstance(op, (ast.Is, ast.IsNot)):
            same = self.need_term(a) == self.need_term(b)
            an0 = a.ty.name if a.ty else None
            bn0 = b.ty.name if b.ty else None
            if not self.pure and an0 in ("str", "float") and bn0 in ("str", "float"):
                # Python object identity of two strings / floats is NOT determined by their values (equal strings from different
                # sources are usually different objects): in code under verification `a is b` may be False although a == b.
                # (Contract texts use `is` for value identity of terms; None, bools, enum members and object references are unaffected.)
                ident = z3.Function("py_same_object", Val, Val, z3.BoolSort())
                ta, tb = self.need_term(a), self.need_term(b)
                same = z3.If(z3.Or(Val.is_VNone(ta), Val.is_VNone(tb)), same, z3.And(same, ident(ta, tb)))
                self.assumptions.add("A-IS: `is` between two str/float values in code = equal values AND an unknown same-object predicate")
            return same if isinstance(op, ast.Is) else z3.Not(same)
        if isinstance(op, ast.Eq):
            return self.eq_terms(a, b)
        if isinstance(op, ast.NotEq):
            return z3.Not(self.eq_terms(a, b))
        if isinstance(op, (ast.In, ast.NotIn)):
            r = self.contains(b, a, node)
            return z3.Not(r) if isinstance(op, ast.NotIn) else r
        an = a.ty.name if a.ty else None
        bn = b.ty.name if b.ty else None
        if an == "str" and bn == "str":
            x, y = SVs(a.term), SVs(b.term)
            if isinstance(op, ast.Lt):
                return x < y
            if isinstance(op, ast.LtE):
                return x <= y
            if isinstance(op, ast.Gt):
                return y < x
            return y <= x
        if an == "int" and bn == "int":
            x, y = IV(a.term), IV(b.term)
        else:
            if an not in ("int", "float", "num", "bool", None, "any") or bn not in ("int", "float", "num", "bool", None, "any"):
                raise Unsupported(f"ordering on {a.ty}/{b.ty}")
            if (a.ty and a.ty.nullable) or (b.ty and b.ty.nullable) or an in (None, "any") or bn in (None, "any"):
                bad = z3.Or(z3.Not(is_numeric(a.term)), z3.Not(is_numeric(b.term)))
                self.raise_if(bad, "TypeError", "ordering on non-numbers")
            x = RV(a.term) if an == "float" else num(a.term)
            y = RV(b.term) if bn == "float" else num(b.term)
        if isinstance(op, ast.Lt):
            return x < y
        if isinstance(op, ast.LtE):
            return x <= y
        if isinstance(op, ast.Gt):
            return x > y
        if isinstance(op, ast.GtE):
            return x >= y
        raise Unsupported("compare op")

    def contains(self, container: SV, item: SV, node=None):
        if container.meta and container.meta[0] == "oldview":
            view = container
            return self.in_view(view, lambda: self.contains(SV(view.term, view.ty), item, node))
        st = self.st
        cn = container.ty.name if container.ty else None
        if container.meta and container.meta[0] == "tuple":
            return z3.Or([self.eq_terms(item, e) for e in container.meta[1]]) if container.meta[1] else z3.BoolVal(False)
        if container.meta and container.meta[0] == "dictview":
            kind, d = container.meta[1], container.meta[2]
            if kind == "keys":
                return H.dict_has(st, H.rid(d), self.need_term(item))
            raise Unsupported("`in` on dict values/items view")
        if cn == "str":
            return z3.Contains(SVs(container.term), SVs(item.term))
        if cn in ("dict", "set"):
            return H.dict_has(st, H.rid(container), self.need_term(item))
        if cn in ("list", "tuple"):
            ety = container.ty.elt() if container.ty else None
            elem = lambda x, y: self.eq_terms(SV(x, ety), item)
            n = simplify_bool(H.list_len(st, H.rid(container)) >= 0)
            ln = z3.simplify(H.list_len(st, H.rid(container)))
            if z3.is_int_value(ln) and ln.as_long() <= 12:
                return z3.Or([self.eq_terms(SV(H.list_get(st, H.rid(container), k), ety), item)
                              for k in range(ln.as_long())]) if ln.as_long() else z3.BoolVal(False)
            return H.list_contains(st, H.rid(container), item.term, elem)
        ci = self.cls_of(container.ty)
        if ci is not None and ci.is_flag(self.repo):
            # Flag containment: (b & a) == a over the small concrete value domain
            top = 0
            for m in self.enum_members(ci).values():
                top |= m.meta
            cases = []
            for bval in range(top + 1):
                for aval in range(top + 1):
                    if (bval & aval) == aval:
                        cases.append(z3.And(IV(container.term) == bval, IV(item.term) == aval))
            return z3.Or(cases)
        if getattr(self, "lenient", False) and container.term is not None and item.term is not None:
            self.assumptions.add("LENIENT: `in` on a value of unknown type is an uninterpreted predicate of container and item")
            return z3.Function("in_opaque", Val, Val, z3.BoolSort())(container.term, item.term)
        raise Unsupported(f"`in` on {container.ty}: {ast.unparse(node)[:60] if node else ''}")

    def ev_NamedExpr(self, node, fr):
        v = self.ev(node.value, fr)
        fr.locals[node.target.id] = v
        return v

    def ev_Lambda(self, node, fr):
        return SV(None, Ty("callable"), ("lambda", node, fr, fr.module))

    def ev_Await(self, node, fr):
        # `await f(...)`: coroutine functions are followed like ordinary calls (interleavings at awaits are handled by the
        # contract's on_yield hook where a property needs them)
        h = getattr(fr.contract, "on_yield", None) if fr.contract is not None else None
        try:
            v = self.ev(node.value, fr)
        except PyRaise:
            # the awaited coroutine raised: the suspension happened all the same, other coroutines may have run before the handler
            if h is not None:
                from .api import Ctx
                h(Ctx(self, fr, "await (raised) " + ast.unparse(node.value)[:60], node))
            raise
        if h is not None:
            from .api import Ctx
            h(Ctx(self, fr, "await " + ast.unparse(node.value)[:60], node))
        return v

    def ev_Yield(self, node, fr):
        """`yield` in a command generator: an interference point (the contract's on_yield hook checks the guarantee, havocs the
        shared state and assumes the rely)"""
        f = fr
        h = None
        while f is not None and h is None:
            h = getattr(f.contract, "on_yield", None) if f.contract is not None else None
            f = f.parent_env
        if h is None and getattr(self, "top_contract", None) is not None:
            h = self.top_contract.on_yield
        if h is None:
            raise Unsupported("yield without an on_yield interference contract")
        from .api import Ctx
        top = getattr(self, "top_frame", fr)
        h(Ctx(self, top if top is not None else fr, "yield", node))
        return SV(NONE, Ty("none"))

    def ev_Starred(self, node, fr):
        raise Unsupported("starred expression")
