#!/bin/sh
# Build the 3.12 overlay venv (z3-solver + cvc5 from the offline wheelhouse, repo deps via .pth).
set -e
cd "$(dirname "$0")"
if [ ! -x .venv/bin/python ] || ! .venv/bin/python -c "import z3, cvc5, pint, pydantic" 2>/dev/null; then
  rm -rf .venv
  /venv/bin/python -m venv .venv
  PIP_NO_INDEX=1 .venv/bin/python -m pip install -q --no-index --find-links /opt/veriftools/wheels z3-solver cvc5
  SP=$(.venv/bin/python -c "import sysconfig; print(sysconfig.get_paths()['purelib'])")
  echo "import site; site.addsitedir('/venv/lib/python3.12/site-packages')" > "$SP/zz_repo_deps.pth"
fi
.venv/bin/python -c "import z3, cvc5, pint, pydantic; print('venv ok', z3.get_version_string())"
mkdir -p evidence replays
